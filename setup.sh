#!/bin/sh
# Build the overlay venv used by all checks (offline). Idempotent.
set -e
cd "$(dirname "$0")"
V=/verif/.venv
if [ ! -x $V/bin/python ] || ! $V/bin/python -c "import z3, crosshair, naunet, jsonschema" 2>/dev/null; then
  rm -rf $V
  /venv/bin/python -m venv $V
  SP=$($V/bin/python -c "import sysconfig;print(sysconfig.get_paths()['purelib'])")
  printf '%s\n%s\n' /venv/lib/python3.12/site-packages /repo > $SP/_naunet_overlay.pth
  PIP_NO_INDEX=1 $V/bin/python -m pip install -q --no-index --find-links /opt/veriftools/wheels z3-solver crosshair-tool jsonschema cvc5 >/dev/null
fi
$V/bin/python -c "import z3, crosshair, naunet, jsonschema; print('venv ok', z3.get_version_string())"
