#!/bin/sh
# tools/try_seed_wt.sh <worktree-with-change-applied> <Cxx> [tier]
# run a check against a scratch worktree (not /repo); evidence/replays go to /tmp/seedout-<Cxx>
set -u
WT="$1"; PID="$2"; TIER="${3:-quick}"
OUT=/tmp/seedout-$PID; rm -rf "$OUT"; mkdir -p "$OUT"
cd /verif && VERIF_REPO="$WT" VERIF_OUT="$OUT" TMPDIR="$OUT" timeout 3000 ./run "$PID" "$TIER" > "$OUT/out.txt" 2>&1
RC=$?
echo "exit=$RC"; grep -c "^VIOLATION" "$OUT/out.txt"; grep "^\[C" "$OUT/out.txt"; grep -A1 "^VIOLATION" "$OUT/out.txt" | grep "what:" | cut -c1-260 | head -4
