#!/bin/sh
# tools/try_seed.sh <patch.diff> <Cxx> [tier]   -- apply a seeded change to /repo, run the check, undo
set -u
PATCH="$1"; PID="$2"; TIER="${3:-quick}"
cd /repo || exit 9
git diff --quiet || { echo "/repo has uncommitted changes"; exit 9; }
git apply "$PATCH" || { echo "patch does not apply"; exit 9; }
cd /verif && timeout 3000 ./run "$PID" "$TIER" > /tmp/try_seed_$PID.out 2>&1
RC=$?
git -C /repo checkout -- . 
echo "exit=$RC"; grep -c "^VIOLATION" /tmp/try_seed_$PID.out; grep "^\[C" /tmp/try_seed_$PID.out; grep -A1 "^VIOLATION" /tmp/try_seed_$PID.out | grep "what:" | cut -c1-260 | head -4
