#!/bin/sh
# tools/run_all.sh [tier]  -- run every claimed check once, print one summary line each
TIER="${1:-quick}"
cd /verif
for id in $(python3 -c "import json;print(' '.join(c['property_id'] for c in json.load(open('MANIFEST.json'))['checks']))"); do
  timeout 7200 ./run $id $TIER > /tmp/run_all_$id.out 2>&1; rc=$?
  echo "$id rc=$rc $(grep '^\[C' /tmp/run_all_$id.out | cut -c1-200)"
done
