#!/bin/sh
# tools/confirm_seed.sh <worktree> : confirm a sub-agent's seeded change (tests pass, demo fails with / passes without)
W="$1"; cd "$W" || exit 9
DEMO=_seed/demo.py; [ -f _seed/demo.sh ] && DEMO=_seed/demo.sh
run_demo() { if [ "$DEMO" = "_seed/demo.sh" ]; then sh $DEMO >/tmp/demo.out 2>&1; else /venv/bin/python $DEMO >/tmp/demo.out 2>&1; fi; echo $?; }
git diff --stat -- naunet | tail -3
T=$(timeout 1500 /venv/bin/python -m pytest -q -p no:cacheprovider --timeout=900 -q --deselect tests/console/commands/test_example.py::test_command_example --deselect tests/test_network.py::test_export_empty_network --deselect tests/test_network.py::test_export_network 2>&1 | tail -1)
echo "tests(with change): $T"
echo "demo with change: rc=$(run_demo)"
# (not git stash: the stash is shared by all worktrees of a repository)
git diff -- naunet > /tmp/confirm_seed_$$.diff
git apply -R /tmp/confirm_seed_$$.diff
echo "demo without change: rc=$(run_demo)"
git apply /tmp/confirm_seed_$$.diff; rm -f /tmp/confirm_seed_$$.diff
git status --short | head -5
