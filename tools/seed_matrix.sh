#!/bin/sh
# tools/seed_matrix.sh [tier] [seed-dir ...]  -- run every stored seeded change against its check.
# Each seed gets a scratch copy of /repo's HEAD under /tmp (git archive), the patch is applied there and
# the check runs with VERIF_REPO pointing at the copy; /repo itself is never touched.
TIER="${1:-quick}"; [ $# -gt 0 ] && shift
cd /verif || exit 9
[ $# -gt 0 ] && SEEDS="$*" || SEEDS=$(ls seeded)
one() {
  s="$1"; pid=$(echo "$s" | cut -c1-3); w=/tmp/sw-$s; out=/tmp/swout-$s
  # a seed whose meta.json names another property's check as the one that reports it ("caught_by") runs against that check
  cb=$(sed -n 's/.*"caught_by": *"\(C[0-9][0-9]\)".*/\1/p' seeded/$s/meta.json | head -1); [ -n "$cb" ] && pid="$cb"
  rm -rf "$w" "$out"; mkdir -p "$w" "$out"
  git -C /repo archive HEAD | tar -x -C "$w"
  if ! (cd "$w" && git apply /verif/seeded/$s/patch.diff 2>/dev/null || patch -s -p1 -d "$w" < /verif/seeded/$s/patch.diff); then echo "$s patch-does-not-apply"; rm -rf "$w" "$out"; return; fi
  VERIF_REPO="$w" VERIF_OUT="$out" TMPDIR="$out" timeout 3000 ./run "$pid" "$TIER" > "$out/out.txt" 2>&1
  rc=$?
  echo "$s exit=$rc violations=$(grep -c '^VIOLATION' $out/out.txt) $(grep '^\[C' $out/out.txt | cut -c1-120)"
  cp "$out/out.txt" /tmp/seedmatrix-$s.txt
  rm -rf "$w" "$out"
}
if [ "${SEED_MATRIX_ONE:-}" = 1 ]; then one "$SEEDS"; exit 0; fi
# four seeds at a time (xargs; POSIX sh has no `jobs -r`)
echo $SEEDS | tr ' ' '\n' | SEED_MATRIX_ONE=1 xargs -P ${SEED_MATRIX_P:-4} -I{} "$0" "$TIER" {}
