"""Native replay: compile the *real emitted* translation units with g++ against a
small runtime (vf/shim/rt) and evaluate them at a concrete point.

Only the rate-coefficient providers (EvalRates & co.) can be replaced by the
driver (so that a counterexample's k-values can be reproduced); everything else
-- Fex/Jac, physics helpers, constants -- is the generated code itself.
"""
from __future__ import annotations

import os
import re
import shutil
import subprocess

from .ode import KIND
from .proj import SHIM

RT = os.path.join(os.path.dirname(os.path.abspath(__file__)), "shim", "rt")
GXX = shutil.which("g++") or "g++"

DRIVER_COMMON = r"""
#include <stdio.h>
#include <stdlib.h>
#include <string.h>
#include <math.h>
%(rt)s
#include "naunet_macros.h"
#include "naunet_data.h"
#include "naunet_ode.h"
#include "naunet_physics.h"
static double K[NREACTIONS + 1], KH[NHEATPROCS + 1], KC[NCOOLPROCS + 1];
static double OPQ_npar = 1, OPQ_mu = 1, OPQ_gamma = 1;
#include "naunet_constants.h"
// opaque helpers of the symbolic harness are inputs here as well
static double *OPQ_cell1 = 0;  // two-system replay (cusparse): the helper value of the second system is twice the first's
double GetNumDens(double *y) { return (OPQ_cell1 && y == OPQ_cell1) ? 2.0 * OPQ_npar : OPQ_npar; }
double GetMu(double *y) { return OPQ_mu; }
double GetGamma(double *y) { return OPQ_gamma; }
%(rates_override)s
static double rd() { double v; if (scanf("%%lf", &v) != 1) { fprintf(stderr, "input\n"); exit(2); } return v; }
static void fill(NaunetData &d) {
%(fill)s
}
"""

RATES_OVERRIDE = r"""
int EvalRates(double *k, double *y, NaunetData *d) { for (int i = 0; i < NREACTIONS; i++) k[i] = K[i]; return 0; }
#if NHEATPROCS
int EvalHeatingRates(double *k, double *y, NaunetData *d) { for (int i = 0; i < NHEATPROCS; i++) k[i] = KH[i]; return 0; }
#endif
#if NCOOLPROCS
int EvalCoolingRates(double *k, double *y, NaunetData *d) { for (int i = 0; i < NCOOLPROCS; i++) k[i] = KC[i]; return 0; }
#endif
"""

MAIN_CVODE = r"""
int main() {
    static double y[NEQUATIONS + 1], ydot[NEQUATIONS + 1];
    for (int i = 0; i < NEQUATIONS; i++) y[i] = rd();
    for (int i = 0; i < NREACTIONS; i++) K[i] = rd();
    for (int i = 0; i < NHEATPROCS; i++) KH[i] = rd();
    for (int i = 0; i < NCOOLPROCS; i++) KC[i] = rd();
    NaunetData d; fill(d);
    OPQ_npar = rd(); OPQ_mu = rd(); OPQ_gamma = rd();
    _generic_N_Vector u = {y, NEQUATIONS}, ud = {ydot, NEQUATIONS};
    for (int i = 0; i < NEQUATIONS; i++) ydot[i] = NAN;
    Fex(0.0, &u, &ud, &d);
    for (int i = 0; i < NEQUATIONS; i++) printf("ydot %%d %%.17g\n", i, ydot[i]);
    printf("aux kerg %%.17g\n", (double)kerg);
    {
        static double k[NREACTIONS + 1];
        %(real_rates_call)s
    }
#if %(dense)d
    static double jd[NEQUATIONS * NEQUATIONS + 1];
    for (int i = 0; i < NEQUATIONS * NEQUATIONS; i++) jd[i] = NAN;
    _generic_SUNMatrix A = {jd, NEQUATIONS, NEQUATIONS, 0, 0, 0};
    Jac(0.0, &u, &ud, &A, &d, 0, 0, 0);
    for (int r = 0; r < NEQUATIONS; r++) for (int c = 0; c < NEQUATIONS; c++) printf("J %%d %%d %%.17g\n", r, c, jd[r * NEQUATIONS + c]);
#else
    static double dat[NNZ + 1]; static sunindextype rp[NEQUATIONS + 2], cv[NNZ + 1];
    for (int i = 0; i < NNZ; i++) { dat[i] = NAN; cv[i] = -1; }
    for (int i = 0; i <= NEQUATIONS; i++) rp[i] = -1;
    _generic_SUNMatrix A = {dat, NEQUATIONS, NEQUATIONS, rp, cv, NNZ};
    Jac(0.0, &u, &ud, &A, &d, 0, 0, 0);
    for (int i = 0; i <= NEQUATIONS; i++) printf("rowptr %%d %%ld\n", i, (long)rp[i]);
    for (int i = 0; i < NNZ; i++) printf("csr %%d %%ld %%.17g\n", i, (long)cv[i], dat[i]);
    // second evaluation on the same matrix after SUNMatZero, which for a sparse matrix clears the values, the
    // column indices and the row pointers (what CVODE does before every Jacobian evaluation)
    for (int i = 0; i < NNZ; i++) { dat[i] = 0.0; cv[i] = 0; }
    for (int i = 0; i <= NEQUATIONS; i++) rp[i] = 0;
    Jac(0.0, &u, &ud, &A, &d, 0, 0, 0);
    for (int i = 0; i <= NEQUATIONS; i++) printf("rowptr2 %%d %%ld\n", i, (long)rp[i]);
    for (int i = 0; i < NNZ; i++) printf("csr2 %%d %%ld %%.17g\n", i, (long)cv[i], dat[i]);
#endif
    printf("oob %%ld\n", verif_oob);
    return 0;
}
"""

MAIN_ODEINT = r"""
int main() {
    vector_type y(NEQUATIONS), ydot(NEQUATIONS), dfdt(NEQUATIONS);
    matrix_type J(NEQUATIONS, NEQUATIONS);
    for (int i = 0; i < NEQUATIONS; i++) y[i] = rd();
    for (int i = 0; i < NREACTIONS; i++) K[i] = rd();
    for (int i = 0; i < NHEATPROCS; i++) KH[i] = rd();
    for (int i = 0; i < NCOOLPROCS; i++) KC[i] = rd();
    NaunetData d; fill(d);
    OPQ_npar = rd(); OPQ_mu = rd(); OPQ_gamma = rd();
    for (int i = 0; i < NEQUATIONS; i++) ydot[i] = NAN;
    Fex fex(&d); fex(y, ydot, 0.0);
    for (int i = 0; i < NEQUATIONS; i++) printf("ydot %%d %%.17g\n", i, ydot[i]);
    double yy[NEQUATIONS + 1]; for (int i = 0; i < NEQUATIONS; i++) yy[i] = y[i];
    printf("aux kerg %%.17g\n", (double)kerg);
    {
        static double k[NREACTIONS + 1]; double *y = yy;
        %(real_rates_call)s
    }
    for (int r = 0; r < NEQUATIONS; r++) for (int c = 0; c < NEQUATIONS; c++) J(r, c) = NAN;
    Jac jac(&d); double t = 0.0; jac(y, J, t, dfdt);
    for (int r = 0; r < NEQUATIONS; r++) for (int c = 0; c < NEQUATIONS; c++) printf("J %%d %%d %%.17g\n", r, c, J(r, c));
    printf("oob %%ld\n", boost::numeric::ublas::verif_oob);
    return 0;
}
"""


MAIN_CUDA = r"""
extern "C" int SUNMatrix_cuSparse_CopyToDevice(SUNMatrix, realtype *, int *rp, int *cv) {
    for (int i = 0; i <= NEQUATIONS; i++) verif_rowptrs[i] = rp[i];
    for (int i = 0; i < NNZ; i++) verif_colvals[i] = cv[i];
    return 0;
}
void FexKernel(realtype *y, realtype *ydot, NaunetData *d_udata, int nsystem);
void JacKernel(realtype *y, realtype *data, NaunetData *d_udata, int nsystem);
int InitJac(SUNMatrix jmatrix);
int main() {
    static double y[NEQUATIONS + 1], ydot[NEQUATIONS + 1], dat[NNZ + 1];
    for (int i = 0; i < NEQUATIONS; i++) y[i] = rd();
    for (int i = 0; i < NREACTIONS; i++) K[i] = rd();
    for (int i = 0; i < NHEATPROCS; i++) KH[i] = rd();
    for (int i = 0; i < NCOOLPROCS; i++) KC[i] = rd();
    NaunetData d; fill(d);
    OPQ_npar = rd(); OPQ_mu = rd(); OPQ_gamma = rd();
    for (int i = 0; i < NEQUATIONS; i++) ydot[i] = NAN;
    FexKernel(y, ydot, &d, 1);
    for (int i = 0; i < NEQUATIONS; i++) printf("ydot %%d %%.17g\n", i, ydot[i]);
    printf("aux kerg %%.17g\n", (double)kerg);
    {
        static double k[NREACTIONS + 1];
        %(real_rates_call)s
    }
    for (int i = 0; i <= NEQUATIONS; i++) verif_rowptrs[i] = -1;
    for (int i = 0; i < NNZ; i++) { dat[i] = NAN; verif_colvals[i] = -1; }
    InitJac(0);
    JacKernel(y, dat, &d, 1);
    for (int i = 0; i <= NEQUATIONS; i++) printf("rowptr %%d %%d\n", i, verif_rowptrs[i]);
    for (int i = 0; i < NNZ; i++) printf("csr %%d %%d %%.17g\n", i, verif_colvals[i], dat[i]);
    printf("oob %%ld\n", verif_oob);
    {
        // one thread, two systems with identical abundances and parameters; only GetNumDens tells them apart
        static double y2[2 * NEQUATIONS + 1], ydot2[2 * NEQUATIONS + 1]; static NaunetData d2[2];
        for (int i = 0; i < NEQUATIONS; i++) y2[i] = y2[NEQUATIONS + i] = y[i];
        d2[0] = d; d2[1] = d;
        for (int i = 0; i < 2 * NEQUATIONS; i++) ydot2[i] = NAN;
        OPQ_cell1 = y2 + NEQUATIONS;
        FexKernel(y2, ydot2, d2, 2);
        OPQ_cell1 = 0;
        for (int i = 0; i < NEQUATIONS; i++) printf("cell1 %%d %%.17g\n", i, ydot2[NEQUATIONS + i]);
    }
    return 0;
}
"""


class NativeError(Exception):
    pass


class NativeEval:
    def __init__(self, project, tdir, real_rates=False):
        self.project, self.tdir, self.real_rates = project, tdir, real_rates
        self.kind = KIND[tdir]
        self.exe = None
        self.fields = [f for f, _ in project.data_fields(tdir)]

    def build(self):
        if self.exe:
            return self.exe
        t = self.project.tdir(self.tdir)
        bdir = os.path.join(t, "native_rr" if self.real_rates else "native")
        os.makedirs(bdir, exist_ok=True)
        fill = "\n".join(f"    d.{f} = rd();" for f in self.fields)
        odeint = self.kind == "odeint"
        cuda = self.kind == "cusparse"
        rt = '#include "rt_boost.h"' if odeint else ('#include "rt_cuda.h"' if cuda else '#include "rt_cvode.h"')
        real_call = 'EvalRates(k, y, &d); for (int i = 0; i < NREACTIONS; i++) printf("k %d %.17g\\n", i, k[i]);' if self.real_rates else ""
        drv = DRIVER_COMMON % {"rt": rt, "rates_override": "" if self.real_rates else RATES_OVERRIDE, "fill": fill}
        drv += (MAIN_ODEINT if odeint else (MAIN_CUDA if cuda else MAIN_CVODE)) % {"dense": 1 if self.kind == "dense" else 0, "real_rates_call": real_call}
        dp = os.path.join(bdir, "driver.cpp")
        with open(dp, "w") as fh:
            fh.write(drv)
        inc = ["-I", RT, "-I", SHIM, "-I", os.path.join(t, "include")]
        flags = ["-std=c++14", "-O0", "-fPIC", "-w", "-ffp-contract=off"]
        if cuda:
            from .ode import H_SHIM_CUDA, cuda_pre
            flags += ["-include", H_SHIM_CUDA]
            tus = ["naunet_fex.cu", "naunet_jac.cu", "naunet_physics.cu", "naunet_constants.cu", "naunet_utilities.cpp"]
            if self.real_rates:
                tus.append("naunet_rates.cu")
        elif odeint:
            tus = ["naunet_ode.cpp", "naunet_physics.cpp", "naunet_constants.cpp", "naunet_utilities.cpp"]
        else:
            tus = ["naunet_fex.cpp", "naunet_jac.cpp", "naunet_physics.cpp", "naunet_constants.cpp", "naunet_utilities.cpp"]
            if self.real_rates:
                tus.append("naunet_rates.cpp")
        objs = []
        for tu in tus + ["driver.cpp"]:
            src = dp if tu == "driver.cpp" else os.path.join(t, "src", tu)
            if tu.endswith(".cu"):
                src2 = os.path.join(bdir, tu[:-3] + "_cu.cpp")
                with open(src2, "w") as fh:
                    fh.write(cuda_pre(open(src).read()))
                src = src2
            o = os.path.join(bdir, tu + ".o")
            r = subprocess.run([GXX, *flags, *inc, "-c", src, "-o", o], capture_output=True, text=True)
            if r.returncode != 0:
                raise NativeError(f"native compile of {tu} failed: {r.stderr[-1500:]}")
            if tu in ("naunet_ode.cpp", "naunet_physics.cpp", "naunet_physics.cu"):
                nm = subprocess.run(["nm", o], capture_output=True, text=True).stdout
                pat = r" T (_Z\d+(?:GetNumDens|GetMu|GetGamma)Pd)\b"
                if odeint and not self.real_rates:
                    pat += r"| T (_Z\d+Eval(?:Heating|Cooling)?Rates\w+)"
                for m in re.finditer(pat, nm):
                    sym = m.group(1) or m.group(2)
                    subprocess.run(["objcopy", f"--weaken-symbol={sym}", o], check=True)
            objs.append(o)
        exe = os.path.join(bdir, "replay")
        r = subprocess.run([GXX, "-o", exe, *objs, "-lm"], capture_output=True, text=True)
        if r.returncode != 0:
            raise NativeError(f"native link failed: {r.stderr[-1500:]}")
        self.exe = exe
        return exe

    def eval(self, y, k=(), kh=(), kc=(), data=None, npar=1.0, mu=1.0, gamma=1.0):
        """all inputs are floats; returns dict with ydot, J (dict), aux, csr, oob"""
        exe = self.build()
        data = data or {}
        m = self.project.macros(self.tdir)
        k = list(k) + [0.0] * (m["NREACTIONS"] - len(k))
        kh = list(kh) + [0.0] * (m.get("NHEATPROCS", 0) - len(kh))
        kc = list(kc) + [0.0] * (m.get("NCOOLPROCS", 0) - len(kc))
        vals = list(y) + list(k) + list(kh) + list(kc) + [data.get(f, 1.0) for f in self.fields] + [npar, mu, gamma]
        inp = "\n".join(repr(float(v)) for v in vals) + "\n"
        r = subprocess.run([exe], input=inp, capture_output=True, text=True, timeout=120)
        if r.returncode != 0:
            raise NativeError(f"replay binary failed ({r.returncode}): {r.stderr[-500:]}")
        out = {"ydot": {}, "J": {}, "aux": {}, "rowptr": {}, "csr": {}, "k": {}, "oob": 0}
        for l in r.stdout.splitlines():
            p = l.split()
            if p[0] == "ydot":
                out["ydot"][int(p[1])] = float(p[2])
            elif p[0] == "J":
                out["J"][(int(p[1]), int(p[2]))] = float(p[3])
            elif p[0] == "aux":
                out["aux"][p[1]] = float(p[2])
            elif p[0] == "rowptr":
                out["rowptr"][int(p[1])] = int(p[2])
            elif p[0] == "csr":
                out["csr"][int(p[1])] = (int(p[2]), float(p[3]))
            elif p[0] == "rowptr2":
                out.setdefault("rowptr2", {})[int(p[1])] = int(p[2])
            elif p[0] == "csr2":
                out.setdefault("csr2", {})[int(p[1])] = (int(p[2]), float(p[3]))
            elif p[0] == "k":
                out["k"][int(p[1])] = float(p[2])
            elif p[0] == "oob":
                out["oob"] = int(p[1])
            elif p[0] == "cell1":
                out.setdefault("cell1", {})[int(p[1])] = float(p[2])
        return out


def close(a, b, rtol=1e-9, atol=0.0):
    import math

    if a is None or b is None:
        return False
    if math.isnan(a) or math.isnan(b):
        return math.isnan(a) and math.isnan(b)
    if math.isinf(a) or math.isinf(b):
        return a == b
    return abs(a - b) <= atol + rtol * max(abs(a), abs(b))
