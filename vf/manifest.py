"""Regenerate /verif/MANIFEST.json from the table below:  python -m vf.manifest"""
import json
import os

VERIF = os.path.dirname(os.path.dirname(os.path.abspath(__file__)))

E1 = "irsym"
E2 = "chx"

CHECKS = {
    "C01": dict(engine=E1, cat="translation_validation", sec="6 C01",
                technique="symbolic execution of the clang-lowered generated Fex (LLVM IR -> z3 reals) + SMT equivalence with the mass-action law; sat answers replayed on the natively compiled emitted code",
                text="For every corpus network and each of the four back-ends the compiled generated right-hand side is executed symbolically and z3 shows 'exists y,k,params: ydot[i] != mass-action reference' unsat for every slot (and the thermal row). All abundance vectors / rate values are covered by the solver; the network dimension is bounded by the enumerated corpus. The CUDA kernel is additionally run by one thread over two systems: the second system obeys the law with its own abundances, parameters and helper values. For thermal networks the emitted particle-density helper is the sum of the species abundances; networks rendered, edited and rendered again in one process are decided on the second set of sources.",
                note="Trusted: clang++-14 lowering against declaration-only shims, the IR interpreter (cross-checked against g++ builds at random points every run), z3. Real arithmetic (no IEEE rounding). Networks outside the corpus are outside the claim."),
    "C02": dict(engine=E1, cat="translation_validation", sec="6 C02",
                technique="dual-number symbolic execution of the compiled Fex gives d(ydot_i)/d(y_j) as z3 terms; SMT equivalence with every entry the compiled Jac stores (absent entries = 0); native 5-point-stencil replay",
                text="Every (i,j) of NEQ x NEQ for every corpus network, ODE-modifier shape and back-end: 'J_ij != d ydot_i / d y_j' is unsat, where the derivative is obtained by executing the real emitted right-hand side over dual numbers (rate coefficients and opaque helpers carry zero gradient).",
                note="As C01. 'Rate coefficients held fixed' = results of EvalRates/GetNumDens/GetMu/GetGamma have zero gradient. Particle density and k_B assumed non-zero."),
    "C03": dict(engine=E1, cat="translation_validation", sec="6 C03",
                technique="symbolic execution with exactly-sized, bounds-checked memory objects; array-theory SMT queries (symbolic row/position) for CSR well-formedness; SMT equivalence of dense / odeint / CSR / cuSPARSE entries",
                text="All memory accesses of Fex/Jac/EvalRates stay inside objects sized by the generated macros; the CSR arrays satisfy the well-formedness formula for a symbolic row and position; dense, odeint, sparse and cusparse Jacobians hold solver-equal terms at the same (row, col); the pattern file marks exactly the stored entries; a second evaluation of the sparse Jacobian on the same matrix after SUNMatZero (in the state the first left) yields the same index arrays and solver-equal values; the dense and sparse drivers (Naunet::Init / Reset, executed symbolically with recording stubs) keep a matrix of the declared shape and storage format (CSR) and build the linear solver with it; the cusparse kernel gives every system of a batch its own block of NNZ values; the cusparse driver keeps only block-CSR matrices of the declared shape that went through InitJac.",
                note="As C01. Offsets are concrete in generated code, so bounds are decided exactly per project."),
    "C04": dict(engine=E1, cat="translation_validation", sec="6 C04",
                technique="symbolic execution of compiled Fex and GetElementAbund + SMT: element- and charge-weighted sums of ydot are identically zero for enumerated balanced networks, and the library's element totals are the count-weighted sums, with weights from a hand-written composition table",
                text="For exhaustively enumerated balanced reactions over seven molecule pools (ions, both electron spellings, o/p labels, isotopologues, ice/gas pairs, grains in several charge states, multiply charged anions, formulas repeating an element symbol, names beginning like a pseudo-element symbol such as Mg / oH2 / c-C3H), API-built (also rendered under the hh93 dust models from a Leeds gas-grain file), written in each of the five line-oriented input formats and as a KROME file with several @format directives of equal column count, z3 shows sum_s c_e(s)*ydot_s != 0 unsat for each element and for charge, for all y and k, on all back-ends; GetElementAbund(ab, e) != sum_s c_e(s)*ab_s is unsat for all ab; every reaction as held by the network after reading a balanced input is itself balanced by the same table (concrete side obligation).",
                note="As C01. Compositions come from the corpus' own table (vf/corpus_balanced.py), not from the generator's name parser."),
    "C05": dict(engine=E1, cat="translation_validation", sec="6 C05",
                technique="symbolic execution of the compiled EvalRates (floating literals lifted to exact-valued externs so nothing is constant-folded) + SMT equivalence with each database's rate law, libm as uninterpreted functions; native libm replay",
                text="For reaction files written by independent format encoders (KIDA, UMIST, Leeds, UCLCHEM, native) with one reaction per type code x sign class of (alpha,beta,gamma) x literal shape, z3 shows 'exists T, Av, zeta, omega, G0...: k[i] assigned and != law' unsat; an emitted rate expression the real compiler rejects (operator fusion) is a violation.",
                note="Coefficients are enumerated (sign classes, literal shapes), physical parameters are symbolic. libm as UFs with exact values at 0/1. Self-shielding special cases and Leeds types 5/15-19 (emitted as 0.0 by design) are outside the claim."),
    "C06": dict(engine=E1, cat="translation_validation", sec="6 C06",
                technique="symbolic execution of the compiled EvalRates with sentinel-initialised k: the store guard of every k[i] is extracted and SMT-compared with Tmin<=T<Tmax for all T; callers' zero-initialisation read from the compiled Fex/Jac",
                text="For every window shape (none, lower, upper, both, zero, negative, equal bounds; KROME spellings .LE. > d-exponents NONE, numbers beginning with the decimal point; UMIST entries tabulated with several fits) in all six formats, z3 shows for all Tgas that k[i] is assigned iff the window predicate holds; adjacent piecewise windows have exactly one active member at every T including boundaries; the same for grain-surface and gas-grain processes of Leeds (hh93) and UCLCHEM (rr07x) networks carrying windows; Fex/Jac hand EvalRates a zero-initialised array.",
                note="Temperature is a real-valued symbol (boundaries are ordinary values). Reactions overridden by a rate modifier are excluded by design (C13); UCLCHEM accretion lines declare [0, 30) by the reader's documented rule."),
    "C07": dict(engine=E2, cat="exploration", sec="6 C07",
                technique="decode(encode(m)) == m: CrossHair (z3) drives symbolic selectors over abstract reactions, independent per-format encoders write the line/file, the real parsers decode it (untraced); every selection of every condition explored",
                text="For each of the six formats: reactant and product multisets (marker tokens never become species; names at the column-width limit), alpha/beta/gamma for signed/exponent/integer literals, temperature window, index and the reaction type of every format code (KIDA out-of-range formula -> 3, UCLCHEM FREEZE window rule, UMIST entries with several fits read from their first block, KROME window spellings); files with blank, whitespace-only, comment and directive lines at every position yield one reaction per data line in file order.",
                note="Selector enumeration (29 conditions x 512 selections), not symbolic strings; the encoders are the format definitions."),
    "C08": dict(engine=E2, cat="exploration", sec="6 C08",
                technique="CrossHair (z3) drives symbolic selectors over compositions; each selected composition is spelled as a name, parsed by the real Species (untraced) and compared field by field with the composition it was built from; all paths of every condition exhausted",
                text="All ordered pairs and triples of clash-prone symbols (H/He, C/Cl/Ca, S/Si, N/Na/Ni, F/Fe...), every default element with counts and 6 charge states, surface prefixes '#'/'G', ortho/para labels, the UCLCHEM upper-case list with replacement (renamed names), electrons, grains (default and custom symbols with group numbers in every charge state), H2*, c-/l- isomers, surface prefixes followed by a grain-population number, pseudo elements promoted to elements with add_known_elements, anions under the replacement table: element counts, charge, phase, gas counterpart, mass number and is_atom are exactly those of the composition; names with foreign characters are rejected.",
                note="Selector enumeration by the solver, not symbolic strings (CrossHair's regex model is unreliable on this tokenizer; stated in DESIGN.md). Mass numbers from an independent table."),
    "C09": dict(engine=E2, cat="exploration", sec="6 C09",
                technique="CrossHair-selected name pairs on the real Species.__eq__/__hash__/alias + per-project z3 Distinct/range queries over the index tables read back from every generated artefact (macros through the real preprocessor, Python constants via ast, TOML summary, Enzo patch header)",
                text="For all ordered pairs of 40 names: equality, hash equality and alias equality coincide with species identity and every alias is a legal identifier; for four rendered projects the species and element macros are bijections onto 0..N-1 and agree with constant_indexes.py, the counts and per-slot lists of pynaunet_model/constants.py, the [summary] written by `naunet render`, the A_ table of the Enzo patch (rendered by a separate interpreter run under another string-hash seed) the field-type enumeration of the patched typedefs.h (one identifier and one value per species field) and the per-species fields of every other patch file; the Enzo patch is the same, up to the alias eM/EM, however the electron is spelled.",
                note="Per-project obligations are ground facts (stated as such); names and identity classes are a fixed table."),
    "C14": dict(engine=E2, cat="exploration", sec="6 C14",
                technique="CrossHair symbolic execution (z3) of the real Network add/remove/allowed-species/source-sink logic on stub species with symbolic integer identities (all paths), plus solver-selected operation sequences on real reactions compared with an explicit model; the extend command is driven for real and compared with the same model",
                text="From every pre-state with <=2 held reactions, 3 allowed lists and 5 required-species lists (also required species outside the allowed list) one operation of each of 11 kinds keeps species = species of held reactions + required, reactants/products/sources/sinks recomputed, held = added and allowed, none lost; all histories of 2 operations (3 in thorough); setting the allowed list later equals constructing with it; on symbolic stub species the same invariants hold for every aliasing pattern of labels; `naunet extend` keeps exactly the reactions the model predicts.",
                note="Bounded pools and history lengths; a one-step argument from arbitrary small pre-states stands in for longer histories only as far as the model state (held, skipped, allowed, required) is the whole state."),
    "C15": dict(engine=E2, cat="exploration", sec="6 C15",
                technique="CrossHair symbolic execution (z3) of the real Network.find_duplicate_reaction / remove_reaction on stub reactions with symbolic integer identities (all paths), plus solver-enumerated selections of real Reaction objects for every comparison mode; counterexamples replayed natively",
                text="For every list of <=4 reactions (as equality patterns of symbolic labels) the duplicate indices, duplicate list and first-member list equal the specification, and removing the reported reactions leaves one per class; for real reactions (permutations, electron spellings, differing windows/types) every selection of <=3 from a pool of 12 agrees with an independent equivalence per mode, also when the same reaction was read by different format classes; __eq__/__hash__ consistency for all pairs.",
                note="Bounded list lengths and pools; CrossHair's own soundness; string modes compare printed names by documentation."),
    "C16": dict(engine=E1, cat="translation_validation", sec="6 C16",
                technique="symbolic execution of the compiled InitRenorm / RenormAbundance / GetElementAbund / GetHNuclei + SMT (non-linear real arithmetic): with the linear solve as the constraint A(ab) r = b, element totals after renormalisation equal reference ratio x hydrogen nuclei for all ab > 0",
                text="For networks with multi-element molecules, ions, isotopologues/ortho-para species, ice species and dust grains: z3 shows for all positive abundances and all solutions r that every element total after RenormAbundance is b_i*H, that H is preserved when b_H=1, that electrons are untouched, that GetElementAbund is the count-weighted sum, that A(ab)*1 is the current ratio vector and every factor is 1 at r = 1; at class level Naunet::Renorm (aliasing-aware stubs) solves with the stored reference as right-hand side, hands the solution to RenormAbundance, leaves the stored reference unchanged and returns success without renormalising only where every element total already equals reference x hydrogen nuclei, SetReferenceAbund stores ref_i/ref_H resp. E_i/H at r=1 (identity), and that no term divides by the literal 0.0.",
                note="The LU/SUNLinSol solve is modelled by its defining equation; nonsingular A assumed for uniqueness; real arithmetic; elements are the atomic species present (generator's definition)."),
    "C10": dict(engine="cfgsat", cat="other", sec="6 C10",
                technique="real compiler front end (clang++-14 name resolution) on every emitted translation unit of a configuration matrix; thorough: z3 model of the symbol registry (read from the real component classes) solved for mixtures/orders with use-before-declaration, each SAT mixture rendered and compiled",
                text="For six formats, bundled fixtures, four format mixtures in both orders, five grain-model projects, thermal and shielding-table options on dense/sparse/rosenbrock4: every translation unit passes name resolution (no undeclared / redefined identifier); in the thorough tier all presence/order assignments of 6 reaction kinds x 5 grain models x thermal are searched by the solver for a derived quantity whose dependency is declared later or never.",
                note="Two configuration classes are recorded known findings (UCLCHEM network without H2; hh93i without Leeds reactions). Declaration-only API shims: names, not linking. Single grain group."),
    "C11": dict(engine=E1, cat="translation_validation", sec="6 C11",
                technique="symbolic execution of the compiled EvalRates (exact literals, libm uninterpreted) for Leeds- and UCLCHEM-format grain reactions under each dust model + SMT equivalence with independently written Hasegawa-Herbst / Roberts et al. formulae; native libm replay; unsupported (model, process) pairs must be refused",
                text="For accretion (neutral / ion / electron), thermal, cosmic-ray, photo and H2-formation desorption, grain recombination and electron capture under hh93, hh93i, rr07, rr07x and species CO, H2O, CH4, C, H, C+, H3O+, e- (RATE12 and user-supplied binding energies and yields, set before the network exists or changed between two renderings) z3 shows 'exists physical parameters: k[i] assigned and != law' unsat; models asked for a process they do not implement refuse at generation time.",
                note="Mass numbers and binding energies are read independently; physical constants as the project defines them; GetMantleDens opaque; constants inside libm calls are identified up to double rounding (the generator prints quotients such as E_b/A as one literal)."),
    "C12": dict(engine=E1, cat="translation_validation", sec="6 C12",
                technique="the real Fortran->C translator's output is compiled (exact literals) and executed symbolically; z3 compares it, for all variable values, with the term an independent Fortran-semantics reader builds from the input text (libm uninterpreted); sat answers replayed natively with real libm",
                text="For expressions derived from the translator's own grammar to depth 3 (+ - * / ** parentheses, exp/sqrt/log, integer/real/d-exponent literals, KROME variables, user @common variables, n(idx_X), user arrays indexed by a species index) a deterministic family of powers whose exponent or base is an identifier followed by a signed number, and every rate expression of the bundled KROME networks: accepted expressions are value-equal to Fortran semantics and each n(idx_X) resolves to that species' abundance slot, or the expression is rejected at generation time.",
                note="Chained ** (left-associated) and multi-character / electron idx names are recorded known findings. Fortran semantics per the standard; integer**negative integer and hand-written expressions cover the trigonometric / hyperbolic intrinsics and their inverses and the d-prefixed specific names."),
    "C13": dict(engine=E1, cat="translation_validation", sec="6 C13",
                technique="differential symbolic execution: compiled EvalRates/Fex of the project with modifiers vs. the plain project vs. the modifier text (exact arithmetic reader), SMT equivalence per reaction and species; API path and init->TOML->render path compared",
                text="For rate-modifier sets (index present / absent / shared by two reactions / index 0 / negative and compound values / unindexed network re-indexed by joining order) z3 shows k[i] equals the modifier value exactly for the reactions carrying the key and equals the unmodified rate (guard included) for all others; for ODE-modifier sets (1-3 dependencies, repeated, signed/compound factors) ydot differs from the plain project by exactly factor x product on the target species; the project rendered through the configuration file is term-equivalent to the API rendering.",
                note="Modifier expressions are arithmetic over parameters; one 6-reaction KIDA network and one unindexed API network; all parameters, abundances and rate values symbolic."),
    "C20": dict(engine=E1, cat="translation_validation", sec="6 C20",
                technique="differential symbolic execution of the project rendered by `naunet init`+`naunet render` (real CLI, real TOML) against the project rendered through Network(...) for the requested description: SMT equivalence of every rate coefficient and derivative, ground equality of macro tables and TOML fields; CrossHair symbolic execution of InitCommand.handle on symbolic option strings",
                text="For the bundled examples (minimal, primordial, empty; deuterium and cloud in thorough) and option-value classes (blanks around separators in lists and key=value tables, extra species, modifiers, binding energies and yields, non-default symbols, self-shielding tables) the configuration file records what was requested and the command-line rendering is equivalent for all inputs to the API rendering; Network.export for dense / sparse / odeint records the requested solver selection and re-renders to the same back-end with equal right-hand sides; an export over an earlier export with another selection records the later one; the command printed by `naunet example --dry` carries the example module's own tables value by value.",
                note="End-to-end cases are enumerated option classes; the option parser itself is additionally executed by CrossHair on symbolic strings of <=4 characters; prompts are not exercised; `ism` needs an external file."),
    "C18": dict(engine=E1, cat="translation_validation", sec="6 C18",
                technique="ground field-wise comparison of two native write/read cycles + differential symbolic execution: compiled EvalRates/Fex of the direct rendering vs. Network.export re-rendered by `naunet render` in the exported directory, SMT equivalence for all parameter values, native replay of every sat answer",
                text="For networks read from every input format (encoder-written files with every gas-phase type code, bundled fixtures, an API network) two write/read cycles in the native format reproduce reactants/products, window, type, index and coefficients to the printed precision; the exported project re-rendered from its own files has term-equivalent rate coefficients and derivatives or is refused, also when the directory already held the export of an earlier version of the network.",
                note="Seven (format, type code) pairs where export silently changes the law are recorded in known_findings.json; a Leeds ice network cannot be read back natively (known finding); KROME reactions carry text rates and are refused on re-render (allowed). One back-end (cvode dense)."),
    "C19": dict(engine=E1, cat="model_checking", sec="6 C19",
                technique="bounded model checking of the compiled Solve/HandleError IR with a nondeterministic integrator stub (symbolic flags and partial times, merged states) + one SMT-discharged inductive step per recovery level (loop back edge cut); scripted-mock native replay",
                text="Every fault sequence over the recovery ladder is covered by (base) Solve up to HandleError establishes the invariant, (step) from any invariant state one level either returns SUCCESS with exactly y0+dt, returns FAIL, or re-establishes the invariant, with every flag an arbitrary integer and every partial time an arbitrary real; plus end-to-end monolithic queries and concrete-flag/symbolic-time scripts through all five levels, on each of which a failing return implies that the entry state is what the error record prints; odeint Observer and Solve are decided on their compiled IR.",
                note="Integrator contract is an assumption (state = exact solution at the returned time, kept in the integrator's own copy that CVodeInit / CVodeReInit take from the vector when they are called); pow/log10 are uninterpreted with round-trip and monotonicity axioms; 2-equation project (the ladder does not depend on the network); the return value of every scripted run must equal an independent model of the documented ladder; odeint: the observer handed to the integrator carries the current step budget in the first and in a second Solve call; cusparse Solve is outside the encoded set."),
}

NOT_APPLICABLE = {
    "C17": "quantifies over interpreter hash seeds and process-global interpreter state (set/dict iteration order, module-level tables mutated across jinja2/regex/tomlkit calls): not values an SMT solver can range over; deciding it needs differential re-execution, a different technique (DESIGN.md 6a)",
}

PENDING = "check under construction in this round (planned in DESIGN.md section 6); not claimed until it runs green on the pinned tree"


def main():
    props = [json.loads(l)["id"] for l in open(os.path.join(VERIF, "properties.jsonl"))]
    checks = []
    for pid in props:
        c = CHECKS.get(pid)
        if not c:
            continue
        checks.append({
            "property_id": pid,
            "quick_cmd": f"./run {pid} quick",
            "thorough_cmd": f"./run {pid} thorough",
            "evidence_file": f"evidence/{pid}.json",
            "replay_cmd_template": "./run replay {path}",
            "engine": c["engine"],
            "level_claimed": {"category": c["cat"], "text": c["text"], "design_ref": c["sec"]},
            "level_note": c["note"],
            "technique": c["technique"],
        })
    na = []
    for pid in props:
        if pid in CHECKS:
            continue
        na.append({"property_id": pid, "reason": NOT_APPLICABLE.get(pid, PENDING)})
    man = {
        "version": 1,
        "setup_cmd": "./setup.sh",
        "hooks": {
            "guard": "NAUNET_VERIF",
            "enable": "no source hooks are needed: every observation point is an emitted file or a public Python attribute; checks export NAUNET_VERIF=1 only for uniformity",
            "baseline_off_cmd": "cd /repo && /venv/bin/python -m pytest -ra -q -p no:cacheprovider --timeout=900 --continue-on-collection-errors",
            "source_commits": [],
            "add_only": True,
        },
        "engines": [
            {"name": "irsym", "path": "vf/irsym.py", "serves_properties": [p for p, c in CHECKS.items() if c["engine"] == E1],
             "kind_free_text": "symbolic interpreter for the LLVM-14 IR of the generated C++ (clang++-14 lowering, z3 terms, bounds-checked object memory, post-dominator state merging, dual numbers)"},
            {"name": "cfgsat", "path": "vf/checks/c10.py", "serves_properties": ["C10"], "kind_free_text": "z3 constraint model of the symbol registry + real compiler front end"},
            {"name": "chx", "path": "vf/chx", "serves_properties": [p for p, c in CHECKS.items() if c["engine"] == E2],
             "kind_free_text": "CrossHair 0.0.110 (symbolic execution of naunet's Python with z3) on generated PEP316 harnesses"},
        ],
        "checks": checks,
        "not_applicable": na,
        "notes": "Solver-based checking of the real code. Exit 0 = held on everything explored; 1 = replayed violation not in known_findings.json; 3 = harness error (never a verdict). See DESIGN.md.",
    }
    with open(os.path.join(VERIF, "MANIFEST.json"), "w") as fh:
        json.dump(man, fh, indent=1)
    print("MANIFEST.json:", len(checks), "checks,", len(na), "not claimed")


if __name__ == "__main__":
    main()
