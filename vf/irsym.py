"""irsym -- symbolic interpreter for the LLVM-14 IR of naunet's *generated* C++.

The generated sources are lowered by the real compiler (clang++-14) and the
textual IR is executed here instruction by instruction over z3 terms:

  double          -> Fraction (concrete) | z3 Real | Dual (value + sparse gradient)
  i1              -> bool | z3 Bool
  i8/i16/i32/i64  -> int  | z3 Int         (no wrap-around is modelled; a symbolic
                                            integer reaching mul/shl/trunc aborts)
  pointers        -> Ptr(object, concrete byte offset)

Memory is a set of objects with a size in bytes and cells keyed by byte
offset; every load/store is bounds-checked.  Branches on symbolic conditions
are executed on both sides up to the immediate post-dominator and merged with
ite, so no path explosion; loops are followed (all loops in generated code have
concrete trip counts) and a step/recursion budget turns anything else into
`Inconclusive`.
"""
from __future__ import annotations

import os
import re
import time
import struct
import sys
from fractions import Fraction

import z3

sys.setrecursionlimit(200000)


class Inconclusive(Exception):
    """The encoder met something it does not model: never a verdict."""


# --------------------------------------------------------------------------- values
class Ptr:
    __slots__ = ("obj", "off")

    def __init__(self, obj, off=0):
        self.obj, self.off = obj, off

    def __repr__(self):
        return f"Ptr({self.obj}+{self.off})"

    def __eq__(self, o):
        return isinstance(o, Ptr) and o.obj == self.obj and o.off == self.off

    def __hash__(self):
        return hash((self.obj, self.off))


class Dual:
    """value + sparse gradient {column -> term}; used for C02."""

    __slots__ = ("v", "g")

    def __init__(self, v, g=None):
        self.v, self.g = v, (g or {})

    def __repr__(self):
        return f"Dual({self.v}, {self.g})"


def is_sym(v):
    return isinstance(v, z3.ExprRef)


def R(v):
    """to z3 Real"""
    if isinstance(v, Dual):
        v = v.v
    if is_sym(v):
        if v.sort() == z3.IntSort():
            return z3.ToReal(v)
        return v
    if isinstance(v, bool):
        raise Inconclusive("bool used as real")
    return z3.RealVal(str(Fraction(v)))


def Iz(v):
    if is_sym(v):
        return v
    if isinstance(v, bool):
        return z3.IntVal(1 if v else 0)
    return z3.IntVal(int(v))


def Bz(v):
    if is_sym(v):
        return v
    return z3.BoolVal(bool(v))


def _conc(v):
    return isinstance(v, (int, Fraction)) and not isinstance(v, bool)


def _g_add(ga, gb, sign=1):
    out = dict(ga)
    for j, t in gb.items():
        if j in out:
            out[j] = fadd(out[j], t) if sign > 0 else fsub(out[j], t)
        else:
            out[j] = t if sign > 0 else fneg(t)
    return out


def _g_scale(g, s):
    return {j: fmul(t, s) for j, t in g.items()}


def fadd(a, b):
    if isinstance(a, Dual) or isinstance(b, Dual):
        a, b = _dual(a), _dual(b)
        return Dual(fadd(a.v, b.v), _g_add(a.g, b.g))
    if _conc(a) and _conc(b):
        return Fraction(a) + Fraction(b)
    if _conc(a) and a == 0:
        return b
    if _conc(b) and b == 0:
        return a
    return R(a) + R(b)


def fsub(a, b):
    if isinstance(a, Dual) or isinstance(b, Dual):
        a, b = _dual(a), _dual(b)
        return Dual(fsub(a.v, b.v), _g_add(a.g, b.g, -1))
    if _conc(a) and _conc(b):
        return Fraction(a) - Fraction(b)
    if _conc(b) and b == 0:
        return a
    if _conc(a) and a == 0:
        return fneg(b)
    return R(a) - R(b)


def fneg(a):
    if isinstance(a, Dual):
        return Dual(fneg(a.v), {j: fneg(t) for j, t in a.g.items()})
    if _conc(a):
        return -Fraction(a)
    return -R(a)


def fmul(a, b):
    if isinstance(a, Dual) or isinstance(b, Dual):
        a, b = _dual(a), _dual(b)
        return Dual(fmul(a.v, b.v), _g_add(_g_scale(a.g, b.v), _g_scale(b.g, a.v)))
    if _conc(a) and _conc(b):
        return Fraction(a) * Fraction(b)
    if (_conc(a) and a == 0) or (_conc(b) and b == 0):
        return Fraction(0)
    if _conc(a) and a == 1:
        return b
    if _conc(b) and b == 1:
        return a
    return R(a) * R(b)


def fdiv(a, b):
    if isinstance(a, Dual) or isinstance(b, Dual):
        a, b = _dual(a), _dual(b)
        v = fdiv(a.v, b.v)
        g = _g_scale(a.g, fdiv(Fraction(1), b.v))
        if b.g:
            g = _g_add(g, _g_scale(b.g, fdiv(a.v, fmul(b.v, b.v))), -1)
        return Dual(v, g)
    if _conc(a) and _conc(b):
        if b == 0:
            return DIVZERO(a)
        return Fraction(a) / Fraction(b)
    if _conc(b) and b == 1:
        return a
    if _conc(b) and b == 0:
        return DIVZERO(a)
    if _conc(b):
        return fmul(a, Fraction(1) / Fraction(b))
    # division by a symbolic term: multiply by recip(b) (keeps the obligations polynomial)
    return fmul(a, reciprocal(b))


INV = {}
_recip = z3.Function("recip", z3.RealSort(), z3.RealSort())


def reciprocal(b):
    """1/b as an uninterpreted application recip(b): keeps obligations free of
    non-linear division; recip(b1)=recip(b2) follows from b1=b2 by congruence and
    the axiom b != 0 => b*recip(b) = 1 is supplied by inv_axioms()"""
    b = R(b)
    key = b.get_id()
    if key not in INV:
        INV[key] = (b, _recip(b))
    return INV[key][1]


def inv_axioms():
    return [z3.Implies(b != 0, b * i == 1) for b, i in INV.values()]


_divzero = z3.Function("div_by_literal_zero", z3.RealSort(), z3.RealSort())
DIVZERO_SEEN = []


def DIVZERO(a):
    """x / 0.0 with a *literal* zero divisor: recorded, opaque value."""
    DIVZERO_SEEN.append(a)
    return _divzero(R(a))


def _dual(a):
    return a if isinstance(a, Dual) else Dual(a)


def val_of(a):
    return a.v if isinstance(a, Dual) else a


# --------------------------------------------------------------------------- IR parsing
class Instr:
    __slots__ = ("res", "op", "text", "cache")

    def __init__(self, res, op, text):
        self.res, self.op, self.text, self.cache = res, op, text, None


class Func:
    def __init__(self, name, params, rettype):
        self.name, self.params, self.rettype = name, params, rettype
        self.blocks = {}
        self.order = []
        self.entry = None


def split_top(s, sep=","):
    out, depth, cur, instr = [], 0, [], False
    for ch in s:
        if ch == '"':
            instr = not instr
        if not instr:
            if ch in "([{<":
                depth += 1
            elif ch in ")]}>":
                depth -= 1
        if ch == sep and depth == 0 and not instr:
            out.append("".join(cur).strip())
            cur = []
        else:
            cur.append(ch)
    tail = "".join(cur).strip()
    if tail:
        out.append(tail)
    return out


_ATTR = re.compile(
    r"\b(noundef|nonnull|nocapture|readonly|readnone|writeonly|signext|zeroext|returned|noalias|immarg|inreg|nofree|nest)\b"
)
_ATTR2 = re.compile(r"\b(align|dereferenceable|dereferenceable_or_null)\(?\s*\d+\)?")
_ATTR3 = re.compile(r"\b(sret|byval|byref|inalloca|preallocated|elementtype)\([^)]*\)")


def strip_attrs(s):
    s = _ATTR3.sub("", s)
    s = _ATTR.sub("", s)
    s = _ATTR2.sub("", s)
    return " ".join(s.split())


def _unescape(s):
    out = bytearray()
    i = 0
    while i < len(s):
        if s[i] == "\\":
            out.append(int(s[i + 1 : i + 3], 16))
            i += 3
        else:
            out.append(ord(s[i]))
            i += 1
    return bytes(out)


def parse_module(path):
    funcs, structs, globs = {}, {}, {}
    aliases = {}
    cur = None
    label = None
    with open(path) as fh:
        lines = fh.readlines()
    i = 0
    while i < len(lines):
        line = lines[i].rstrip("\n")
        i += 1
        if cur is None:
            m = re.match(r"^(%[\w.\":$]+) = type (.*)$", line)
            if m:
                structs[m.group(1)] = m.group(2)
                continue
            m = re.match(r"^@([\w.$]+) = .*\balias\b.*@([\w.$]+)\s*$", line)
            if m:
                aliases[m.group(1)] = m.group(2)  # e.g. the complete-object constructor C1 of a class is an alias of C2
                continue
            m = re.match(r"^(@[\w.$\"]+) = (.*)$", line)
            if m and not m.group(2).startswith(("alias", "ifunc")):
                globs[m.group(1)] = m.group(2)
                continue
            m = re.match(r"^define (.*?)@([\w.$]+)\(", line) if line.endswith("{") else None
            if m:
                depth, j = 1, m.end()
                while j < len(line) and depth:
                    depth += {"(": 1, ")": -1}.get(line[j], 0)
                    j += 1
                plist = line[m.end() : j - 1]
                params = []
                for p in split_top(plist):
                    toks = p.split()
                    params.append(toks[-1] if toks and toks[-1].startswith("%") else None)
                pre = strip_attrs(m.group(1))
                pre = re.sub(r"\b(dso_local|internal|linkonce_odr|weak_odr|weak|hidden|private|available_externally|external|local_unnamed_addr|unnamed_addr|mustprogress)\b", "", pre).strip()
                cur = Func(m.group(2), params, pre)
                funcs[cur.name] = cur
                label = str(len(params))
                cur.entry = label
                cur.blocks[label] = []
                cur.order.append(label)
            continue
        if line == "}":
            cur = None
            continue
        m = re.match(r"^([\w.$-]+):", line)
        if m:
            label = m.group(1)
            cur.blocks[label] = []
            cur.order.append(label)
            continue
        s = line.strip()
        if not s or s.startswith(";"):
            continue
        # switch spans lines
        if s.startswith("switch") and s.endswith("["):
            while not lines[i].strip().startswith("]"):
                s += " " + lines[i].strip()
                i += 1
            s += " ]"
            i += 1
        if s.startswith("to label"):
            cur.blocks[label][-1].text += " " + re.sub(r", ![\w.]+ ![\w]+", "", s)
            continue
        if s.startswith(("cleanup", "catch ", "filter ")):
            # continuation of a landingpad
            cur.blocks[label][-1].text += " " + s
            continue
        s = re.sub(r", ![\w.]+ ![\w]+", "", s)
        s = re.sub(r", align \d+", "", s)
        s = re.sub(r"\s+#\d+$", "", s)
        m = re.match(r"^(%[\w.$-]+) = (.*)$", s)
        res, body = (m.group(1), m.group(2)) if m else (None, s)
        body = re.sub(r"^(tail |notail |musttail )", "", body)
        op = body.split()[0]
        cur.blocks[label].append(Instr(res, op, body))
    for a, t in aliases.items():
        if t in funcs and a not in funcs:
            funcs[a] = funcs[t]
    return funcs, structs, globs


# --------------------------------------------------------------------------- machine
class State:
    """Overlay state: writes are local, reads fall through to the parent."""

    __slots__ = ("parent", "env", "mem", "size", "log", "pc")

    def __init__(self, parent=None, cond=None):
        self.parent = parent
        self.env = {}
        self.mem = {}
        self.size = {}
        self.log = []
        self.pc = (parent.pc if parent else []) + ([cond] if cond is not None else [])

    def get(self, key):
        s = self
        while s is not None:
            if key in s.env:
                return s.env[key]
            s = s.parent
        raise KeyError(key)

    def has(self, key):
        s = self
        while s is not None:
            if key in s.env:
                return True
            s = s.parent
        return False

    def load(self, obj, off):
        s = self
        while s is not None:
            c = s.mem.get(obj)
            if c is not None and off in c:
                return c[off]
            s = s.parent
        return None

    def store(self, obj, off, v):
        c = self.mem.get(obj)
        if c is None:
            c = self.mem[obj] = {}
        c[off] = v

    def objsize(self, obj):
        s = self
        while s is not None:
            if obj in s.size:
                return s.size[obj]
            s = s.parent
        return None

    def cells(self, obj):
        """all cells of obj visible from this state (offset -> value)"""
        chain = []
        s = self
        while s is not None:
            if obj in s.mem:
                chain.append(s.mem[obj])
            s = s.parent
        out = {}
        for c in reversed(chain):
            out.update(c)
        return out

    def pathcond(self):
        return z3.And([Bz(c) for c in self.pc]) if self.pc else z3.BoolVal(True)


def merge_val(c, a, b):
    if a is b:
        return a
    if isinstance(a, Ptr) or isinstance(b, Ptr):
        if isinstance(a, Ptr) and isinstance(b, Ptr) and a == b:
            return a
        raise Inconclusive("merging distinct pointers")
    if isinstance(a, Dual) or isinstance(b, Dual):
        a, b = _dual(a), _dual(b)
        g = {}
        for j in set(a.g) | set(b.g):
            g[j] = merge_val(c, a.g.get(j, Fraction(0)), b.g.get(j, Fraction(0)))
        return Dual(merge_val(c, a.v, b.v), g)
    if not is_sym(a) and not is_sym(b) and type(a) == type(b) and a == b:
        return a
    if a is None or b is None:
        return None
    if isinstance(a, bool) or isinstance(b, bool) or (is_sym(a) and z3.is_bool(a)) or (is_sym(b) and z3.is_bool(b)):
        return z3.If(c, Bz(a), Bz(b))
    if isinstance(a, Fraction) or isinstance(b, Fraction) or (is_sym(a) and a.sort() == z3.RealSort()) or (is_sym(b) and b.sort() == z3.RealSort()):
        ra, rb = R(a), R(b)
        if ra.eq(rb):
            return ra
        return z3.If(c, ra, rb)
    ia, ib = Iz(a), Iz(b)
    if ia.eq(ib):
        return ia
    return z3.If(c, ia, ib)


class Machine:
    MAX_STEPS = 30_000_000

    def __init__(self, modules, stubs=None):
        self.funcs, self.structs, self.globs = {}, {}, {}
        for p in modules:
            f, s, g = parse_module(p)
            self.funcs.update(f)
            self.structs.update(s)
            for k, v in g.items():
                # prefer a definition with initializer over an extern declaration
                if k not in self.globs or " external " in (" " + self.globs[k] + " "):
                    self.globs[k] = v
        self.stubs = dict(stubs or {})
        self.nobj = 0
        self.fresh = 0
        self.frame_ctr = 0
        self.cfg_cache = {}
        self.steps = 0
        # wall-clock limit (time.time()) for run_until; ordinary generated functions execute in seconds, a function
        # whose shape makes the path count explode ends as Inconclusive instead of running for hours
        self.deadline = time.time() + float(os.environ.get("VERIF_EXEC_BUDGET_S", "900"))
        self.merges = 0
        self.oob = []  # (pathcond, description)
        self.init = {}  # lazily created symbols for never-written memory
        self.ginit = {}  # materialised global initialisers
        self.extern_syms = {}
        self.calls = []  # names of external calls served by stubs
        self.cut_edges = {}  # (fn, pred, block) -> tag  (region mode)
        self.region_exits = []  # (pathcond, tag, pred, snapshot)
        self.size_cache = {}
        self.depth = 0

    # ---------------------------------------------------------------- types
    def type_size_align(self, t):
        t = t.strip()
        r = self.size_cache.get(t)
        if r is not None:
            return r
        r = self._tsa(t)
        self.size_cache[t] = r
        return r

    def _tsa(self, t):
        if t.endswith("*"):
            return 8, 8
        if t in ("double", "i64"):
            return 8, 8
        if t in ("i32", "float"):
            return 4, 4
        if t in ("i8", "i1"):
            return 1, 1
        if t == "i16":
            return 2, 2
        m = re.match(r"^\[(\d+) x (.*)\]$", t)
        if m:
            s, a = self.type_size_align(m.group(2))
            return int(m.group(1)) * s, a
        if t.startswith("%") or t.startswith("{") or t.startswith("<{"):
            _, s, a = self.struct_layout(t)
            return s, a
        raise Inconclusive(f"type {t!r}")

    def struct_layout(self, t):
        body = self.structs[t] if t.startswith("%") else t
        body = body.strip()
        packed = body.startswith("<{")
        if packed:
            body = body[1:-1].strip()
        if body == "opaque":
            raise Inconclusive(f"opaque struct {t}")
        inner = body[1:-1].strip()
        fields = split_top(inner) if inner else []
        off, offs, maxa = 0, [], 1
        for f in fields:
            s, a = self.type_size_align(f)
            if packed:
                a = 1
            off = (off + a - 1) // a * a
            offs.append((off, f))
            off += s
            maxa = max(maxa, a)
        size = (off + maxa - 1) // maxa * maxa
        return offs, size, maxa

    def field_offsets(self, t):
        return self.struct_layout(t)[0]

    # ---------------------------------------------------------------- memory
    def new_obj(self, st, size, name=None):
        self.nobj += 1
        o = name or f"o{self.nobj}"
        st.size[o] = size
        st.mem.setdefault(o, {})
        return Ptr(o, 0)

    def check(self, st, p, n, what="access"):
        if not isinstance(p, Ptr):
            raise Inconclusive(f"deref of non-pointer {p!r}")
        if p.obj == "null":
            self.oob.append((st.pathcond(), f"null dereference ({what})"))
            return False
        size = st.objsize(p.obj)
        if size is None:
            size = self.global_size(p.obj)
        if size is None and ("@" in p.obj or p.obj.startswith(("opaque!", "ext:"))):
            size = 1 << 20  # target of a pointer that was itself read from unconstrained memory
        if size is None:
            raise Inconclusive(f"unknown object {p.obj}")
        if p.off < 0 or p.off + n > size:
            self.oob.append((st.pathcond(), f"{what} of {n} bytes at {p.obj}+{p.off}, object size {size}"))
            return False
        return True

    def init_cell(self, obj, off, ty):
        key = (obj, off)
        if key not in self.init:
            nm = f"{obj}@{off}"
            if ty == "double":
                self.init[key] = z3.Real(nm)
            elif ty.endswith("*"):
                self.init[key] = Ptr(nm, 0)
            elif ty == "i1":
                self.init[key] = z3.Bool(nm)
            else:
                self.init[key] = z3.Int(nm)
        return self.init[key]

    def fresh_real(self, tag):
        self.fresh += 1
        return z3.Real(f"{tag}!{self.fresh}")

    def fresh_int(self, tag):
        self.fresh += 1
        return z3.Int(f"{tag}!{self.fresh}")

    # ---------------------------------------------------------------- globals
    def global_decl(self, name):
        g = self.globs.get(name)
        if g is None:
            return None
        g = re.sub(r"(, (align \d+|comdat(\([^)]*\))?|section \"[^\"]*\"|!\w+ !\d+))+\s*$", "", g)
        m = re.match(r"^((?:[\w()]+ )*?)(global|constant) (.*)$", g)
        if not m:
            return None
        quals, rest = m.group(1), m.group(3)
        ty, init = self._split_type(rest)
        return quals, ty, init

    def _split_type(self, s):
        """split 'TYPE INIT' at top level"""
        s = s.strip()
        depth = 0
        i = 0
        while i < len(s):
            ch = s[i]
            if ch in "([{<":
                depth += 1
            elif ch in ")]}>":
                depth -= 1
            elif ch == " " and depth == 0:
                # pointer stars attach to the type
                j = i
                while j + 1 < len(s) and s[j + 1] == "*":
                    j += 1
                if j > i:
                    i = j
                    continue
                return s[:i].strip(), s[i + 1 :].strip()
            i += 1
        return s, ""

    def global_size(self, obj):
        if not obj.startswith("global:"):
            return None
        d = self.global_decl(obj[7:])
        if d is None:
            return None
        return self.type_size_align(d[1])[0]

    def materialise_global(self, name):
        """{offset: value} for a global with initializer, else None"""
        if name in self.ginit:
            return self.ginit[name]
        d = self.global_decl(name)
        cells = None
        if d is not None and d[2] and "external" not in d[0].split():
            cells = {}
            try:
                self._init_cells(d[1], d[2], 0, cells)
            except Inconclusive:
                cells = None
        self.ginit[name] = cells
        return cells

    def _init_cells(self, ty, init, base, cells):
        ty, init = ty.strip(), init.strip()
        if init == "zeroinitializer":
            self._zero_cells(ty, base, cells)
            return
        if init == "undef":
            return
        m = re.match(r"^\[(\d+) x (.*)\]$", ty)
        if m:
            n, et = int(m.group(1)), m.group(2)
            es = self.type_size_align(et)[0]
            if init.startswith('c"'):
                data = _unescape(init[2:-1])
                cells["$bytes"] = data
                for i, bch in enumerate(data):
                    cells[base + i] = bch
                return
            assert init.startswith("["), init[:40]
            elems = split_top(init[1:-1])
            for i, e in enumerate(elems):
                ety, ev = self._split_type(e)
                self._init_cells(ety, ev, base + i * es, cells)
            return
        if (ty.startswith("%") or ty.startswith("{")) and not ty.endswith("*"):
            offs = self.field_offsets(ty)
            assert init.startswith("{"), init[:40]
            elems = split_top(init[1:-1].strip())
            for (o, _), e in zip(offs, elems):
                ety, ev = self._split_type(e)
                self._init_cells(ety, ev, base + o, cells)
            return
        if ty == "double":
            cells[base] = self.const_double(init)
            return
        if ty in ("i1", "i8", "i16", "i32", "i64"):
            cells[base] = {"true": True, "false": False}.get(init, None)
            if cells[base] is None:
                cells[base] = int(init)
            return
        if ty.endswith("*"):
            if init == "null":
                cells[base] = Ptr("null", 0)
                return
            m = re.search(r"(@[\w.$]+)", init)
            if m:
                cells[base] = Ptr("global:" + m.group(1), 0)
                return
        raise Inconclusive(f"global initializer {ty} {init[:40]}")

    def _zero_cells(self, ty, base, cells):
        m = re.match(r"^\[(\d+) x (.*)\]$", ty)
        if m:
            es = self.type_size_align(m.group(2))[0]
            for i in range(int(m.group(1))):
                self._zero_cells(m.group(2), base + i * es, cells)
        elif ty.endswith("*"):
            cells[base] = Ptr("null", 0)
        elif ty.startswith("%") or ty.startswith("{"):
            for o, ft in self.field_offsets(ty):
                self._zero_cells(ft, base + o, cells)
        elif ty == "double":
            cells[base] = Fraction(0)
        else:
            cells[base] = 0

    @staticmethod
    def const_double(tok):
        if tok.startswith("0x"):
            return Fraction(struct.unpack(">d", bytes.fromhex(tok[2:].rjust(16, "0")))[0])
        return Fraction(float(tok))

    def cstring(self, p):
        """the NUL-terminated string a pointer to a constant global denotes"""
        if not isinstance(p, Ptr) or not p.obj.startswith("global:"):
            return None
        cells = self.materialise_global(p.obj[7:])
        if not cells or "$bytes" not in cells:
            return None
        data = cells["$bytes"][p.off :]
        return data.split(b"\0")[0].decode("latin1")

    # ---------------------------------------------------------------- operands
    def val(self, st, fr, ty, tok):
        tok = tok.strip()
        c0 = tok[0]
        if c0 == "%":
            try:
                return st.get((fr, tok))
            except KeyError:
                raise Inconclusive(f"undefined value {tok}")
        if c0 == "@":
            return Ptr("global:" + tok, 0)
        if tok == "null":
            return Ptr("null", 0)
        if tok in ("undef", "poison"):
            self.fresh += 1
            if ty == "double":
                return z3.Real(f"undef!{self.fresh}")
            if ty == "i1":
                return z3.Bool(f"undef!{self.fresh}")
            if ty.endswith("*"):
                return Ptr(f"undef!{self.fresh}", 0)
            return z3.Int(f"undef!{self.fresh}")
        if tok == "true":
            return True
        if tok == "false":
            return False
        if tok == "zeroinitializer":
            return 0
        if ty == "double":
            return self.const_double(tok)
        if tok.startswith("getelementptr"):
            m = re.match(r"getelementptr (?:inbounds )?\((.*)\)$", tok)
            if not m:
                raise Inconclusive(f"operand {tok!r}")
            return self.gep(st, fr, split_top(m.group(1)))
        if tok.startswith("bitcast"):
            m = re.match(r"bitcast \((.*) to .*\)$", tok)
            if not m:
                raise Inconclusive(f"operand {tok!r}")
            return self.typed(st, fr, m.group(1))[1]
        try:
            return int(tok)
        except ValueError:
            raise Inconclusive(f"operand {tok!r}")

    _VALRE = re.compile(
        r"^(.*?)\s+(getelementptr .*|bitcast .*|%[\w.$-]+|@[\w.$]+|-?\d[\d.]*(?:e[+-]?\d+)?|0x[0-9A-Fa-f]+|null|undef|poison|true|false|zeroinitializer)$"
    )

    def typed(self, st, fr, s):
        s = strip_attrs(s)
        m = self._VALRE.match(s)
        if not m:
            raise Inconclusive(f"cannot parse operand {s!r}")
        ty = m.group(1).strip()
        return ty, self.val(st, fr, ty, m.group(2))

    def gep(self, st, fr, parts):
        ty = parts[0]
        _, base = self.typed(st, fr, parts[1])
        if not isinstance(base, Ptr):
            raise Inconclusive("gep on non-pointer")
        off = base.off
        idxs = [self.typed(st, fr, p)[1] for p in parts[2:]]
        for ix in idxs:
            if is_sym(ix):
                raise Inconclusive("symbolic index in getelementptr")
        s0, _ = self.type_size_align(ty)
        off += idxs[0] * s0
        cur = ty
        for ix in idxs[1:]:
            mm = re.match(r"^\[(\d+) x (.*)\]$", cur)
            if mm:
                es, _ = self.type_size_align(mm.group(2))
                off += ix * es
                cur = mm.group(2)
            else:
                offs = self.field_offsets(cur)
                off += offs[ix][0]
                cur = offs[ix][1]
        return Ptr(base.obj, off)

    # ---------------------------------------------------------------- CFG analysis
    def cfg(self, fn):
        if fn.name in self.cfg_cache:
            return self.cfg_cache[fn.name]
        succ = {}
        for b, ins in fn.blocks.items():
            t = ins[-1]
            if t.op in ("br", "switch", "invoke"):
                succ[b] = list(dict.fromkeys(re.findall(r"label %([\w.$-]+)", t.text)))
            else:
                succ[b] = []
        nodes = list(fn.blocks) + ["$exit"]
        for b in fn.blocks:
            if not succ[b]:
                succ[b] = ["$exit"]
        succ["$exit"] = []
        # post-dominators (iterative)
        pd = {n: set(nodes) for n in nodes}
        pd["$exit"] = {"$exit"}
        changed = True
        order = list(reversed(nodes))
        while changed:
            changed = False
            for n in order:
                if n == "$exit":
                    continue
                new = set.intersection(*[pd[s] for s in succ[n]]) | {n}
                if new != pd[n]:
                    pd[n] = new
                    changed = True
        ip = {}
        for n in nodes:
            cands = pd[n] - {n}
            best = None
            for c in cands:
                if all(o in pd[c] for o in cands):
                    best = c
            ip[n] = best
        self.cfg_cache[fn.name] = (ip, succ)
        return ip, succ

    def loops(self, fn):
        """natural loops: list of (header, set(latches), set(body blocks))"""
        ip, succ = self.cfg(fn)
        nodes = list(fn.blocks)
        pred = {n: set() for n in nodes}
        for b in nodes:
            for s_ in succ[b]:
                if s_ != "$exit":
                    pred[s_].add(b)
        dom = {n: set(nodes) for n in nodes}
        dom[fn.entry] = {fn.entry}
        changed = True
        while changed:
            changed = False
            for n in nodes:
                if n == fn.entry:
                    continue
                ps = [dom[p_] for p_ in pred[n]]
                new = (set.intersection(*ps) if ps else set()) | {n}
                if new != dom[n]:
                    dom[n] = new
                    changed = True
        out = {}
        for u in nodes:
            for h in succ[u]:
                if h != "$exit" and h in dom[u]:
                    body = {h, u}
                    work = [u]
                    while work:
                        x = work.pop()
                        if x == h:
                            continue
                        for p_ in pred[x]:
                            if p_ not in body:
                                body.add(p_)
                                work.append(p_)
                    e = out.setdefault(h, (set(), set()))
                    e[0].add(u)
                    e[1].update(body)
        return [(h, l, b) for h, (l, b) in out.items()]

    # ---------------------------------------------------------------- execution
    def call(self, st, name, args, argtys=None):
        if name in self.stubs:
            self.calls.append(name)
            return self.stubs[name](self, st, args)
        if name in self.funcs:
            fn = self.funcs[name]
            self.frame_ctr += 1
            fr = self.frame_ctr
            for p, a in zip(fn.params, args):
                if p:
                    st.env[(fr, p)] = a
            return self.run_until(fn, fr, st, fn.entry, None, "$exit")
        raise Inconclusive(f"unknown external function {name}")

    def run_function(self, name, st, args):
        return self.call(st, name, args)

    def eval_phis(self, fn, fr, st, block, pred):
        newv = {}
        for I in fn.blocks[block]:
            if I.op != "phi":
                break
            if I.cache is None:
                m = re.match(r"phi (.*?) (\[.*)$", I.text)
                I.cache = (m.group(1), re.findall(r"\[ (.+?), %([\w.$-]+) \]", m.group(2)))
            ty, arms = I.cache
            for v, l in arms:
                if l == pred:
                    newv[(fr, I.res)] = self.val(st, fr, ty, v)
                    break
            else:
                raise Inconclusive(f"phi without incoming {pred} in {block}")
        st.env.update(newv)

    def run_until(self, fn, fr, st, block, pred, stop, phis_done=False):
        """Execute from `block` (entered from `pred`) until the first arrival at
        `stop`; phis of `stop` are evaluated for the arriving edge.  Mutates and
        returns `st`; second result is the return value when stop == '$exit'."""
        ip, succ = self.cfg(fn)
        self.depth += 1
        if self.depth > 3000:
            raise Inconclusive("branch nesting too deep (symbolic loop?)")
        try:
            while True:
                if block != "$exit" and not phis_done:
                    tag = self.cut_edges.get((fn.name, pred, block))
                    if tag is not None:
                        # region mode: a cut back edge is a pseudo-return; freeze what the
                        # target's phis and the memory look like on that edge
                        phi = {}
                        for I in fn.blocks[block]:
                            if I.op != "phi":
                                break
                            m = re.match(r"phi (.*?) (\[.*)$", I.text)
                            for v, l in re.findall(r"\[ (.+?), %([\w.$-]+) \]", m.group(2)):
                                if l == pred:
                                    try:
                                        phi[I.res] = self.val(st, fr, m.group(1), v)
                                    except Inconclusive:
                                        phi[I.res] = None
                        objs = set()
                        s_ = st
                        while s_ is not None:
                            objs.update(s_.mem)
                            s_ = s_.parent
                        snap = {"mem": {o: st.cells(o) for o in objs}, "phi": phi}
                        self.region_exits.append((st.pathcond(), tag, pred, snap))
                        return st, CUT
                    self.eval_phis(fn, fr, st, block, pred)
                phis_done = False
                if block == stop:
                    return st, None
                nxt = None
                for I in fn.blocks[block]:
                    if I.op == "phi":
                        continue
                    self.steps += 1
                    if self.steps > self.MAX_STEPS:
                        raise Inconclusive("step budget exhausted")
                    if self.deadline is not None and (self.steps & 255) == 0 and time.time() > self.deadline:
                        raise Inconclusive("time budget of the symbolic execution exhausted (path explosion)")
                    r = self.exec(fn, fr, st, I, block)
                    if r is None:
                        continue
                    kind = r[0]
                    if kind == "goto":
                        nxt = (block, r[1])
                        break
                    if kind == "ret":
                        if stop != "$exit":
                            raise Inconclusive("return before reaching merge point")
                        return st, r[1]
                    if kind == "branch":
                        c, lt, lf = r[1], r[2], r[3]
                        P = ip[block]
                        if P is None:
                            raise Inconclusive("no post-dominator")
                        sa = State(st, c)
                        sb = State(st, z3.Not(c))
                        _, ra = self.run_until(fn, fr, sa, lt, block, P)
                        _, rb = self.run_until(fn, fr, sb, lf, block, P)
                        if (ra is CUT) != (rb is CUT):
                            # one side left through a cut edge: the continuation is the live side
                            live, g = (sb, z3.Not(c)) if ra is CUT else (sa, c)
                            st.env.update(live.env)
                            for o, cells in live.mem.items():
                                for off, v in cells.items():
                                    st.store(o, off, v)
                            st.size.update(sa.size)
                            st.size.update(sb.size)
                            st.log.extend((z3.And(g, gg), e) for gg, e in live.log)
                            st.pc = st.pc + [g]
                        else:
                            self.merge_into(st, c, sa, sb)
                        self.merges += 1
                        if P == "$exit":
                            if stop != "$exit":
                                raise Inconclusive("exit inside region")
                            return st, self.merge_ret(c, ra, rb)
                        if ra is CUT and rb is CUT:
                            return st, CUT
                        if (ra is not None and ra is not CUT) or (rb is not None and rb is not CUT):
                            raise Inconclusive("early return inside merged region")
                        nxt = (None, P)
                        phis_done = True
                        break
                    raise Inconclusive(f"exec result {kind}")
                if nxt is None:
                    raise Inconclusive("fell off block " + block)
                pred, block = nxt
        finally:
            self.depth -= 1

    def merge_ret(self, c, ra, rb):
        if ra is CUT:
            return rb
        if rb is CUT:
            return ra
        if isinstance(ra, (RetSet, Throw)) or isinstance(rb, (RetSet, Throw)):
            return RetSet.join(c, ra, rb)
        return merge_val(c, ra, rb)

    def merge_into(self, st, c, sa, sb):
        for k in set(sa.env) | set(sb.env):
            ha, hb = (k in sa.env) or st.has(k), (k in sb.env) or st.has(k)
            if ha and hb:
                va = sa.env[k] if k in sa.env else st.get(k)
                vb = sb.env[k] if k in sb.env else st.get(k)
                try:
                    st.env[k] = merge_val(c, va, vb)
                except Inconclusive:
                    st.env[k] = None
        for o in set(sa.mem) | set(sb.mem):
            ca, cb = sa.mem.get(o, {}), sb.mem.get(o, {})
            for off in set(ca) | set(cb):
                va = ca[off] if off in ca else st.load(o, off)
                vb = cb[off] if off in cb else st.load(o, off)
                # a pointer cell that exists on one side only (object created on that path): the other
                # side never reads it, keep the pointer
                if va is None and isinstance(vb, Ptr):
                    st.store(o, off, vb)
                    continue
                if vb is None and isinstance(va, Ptr):
                    st.store(o, off, va)
                    continue
                if va is None and vb is not None:
                    va = self.init_like(o, off, vb)
                if vb is None and va is not None:
                    vb = self.init_like(o, off, va)
                st.store(o, off, merge_val(c, va, vb))
        st.size.update(sa.size)
        st.size.update(sb.size)
        st.log.extend((z3.And(c, g), e) for g, e in sa.log)
        nc = z3.Not(c)
        st.log.extend((z3.And(nc, g), e) for g, e in sb.log)

    def init_like(self, o, off, like):
        if isinstance(like, Ptr):
            ty = "i8*"
        elif isinstance(like, (Fraction, Dual)) or (is_sym(like) and like.sort() == z3.RealSort()):
            ty = "double"
        elif isinstance(like, bool) or (is_sym(like) and z3.is_bool(like)):
            ty = "i1"
        else:
            ty = "i32"
        return self.init_cell(o, off, ty)

    # ---------------------------------------------------------------- instructions
    def exec(self, fn, fr, st, I, block):
        op, t = I.op, I.text
        env = st.env
        if op in ("fadd", "fsub", "fmul", "fdiv"):
            if I.cache is None:
                m = re.match(rf"{op} (?:\w+ )*?double (.*), (.*)$", t)
                I.cache = (m.group(1).strip(), m.group(2).strip())
            a, b = self.val(st, fr, "double", I.cache[0]), self.val(st, fr, "double", I.cache[1])
            env[(fr, I.res)] = {"fadd": fadd, "fsub": fsub, "fmul": fmul, "fdiv": fdiv}[op](a, b)
            return
        if op == "load":
            if I.cache is None:
                # atomic accesses (e.g. the guard byte of a function-local static) are plain accesses here: one thread
                t_ = re.sub(r"\s+(?:unordered|monotonic|acquire|release|acq_rel|seq_cst)\s*$", "", re.sub(r",\s*align \d+\s*$", "", t))
                m = re.match(r"load (?:atomic )?(?:volatile )?(.*?), (.*)$", t_)
                I.cache = (m.group(1).strip(), m.group(2))
            ty, ps = I.cache
            _, p = self.typed(st, fr, ps)
            env[(fr, I.res)] = self.load(st, p, ty)
            return
        if op == "store":
            if I.cache is None:
                t_ = re.sub(r"\s+(?:unordered|monotonic|acquire|release|acq_rel|seq_cst)\s*$", "", re.sub(r",\s*align \d+\s*$", "", t))
                m = re.match(r"store (?:atomic )?(?:volatile )?(.*)$", t_)
                I.cache = split_top(m.group(1))
            a, b = I.cache
            ty, v = self.typed(st, fr, a)
            _, p = self.typed(st, fr, b)
            self.store(st, p, ty, v)
            return
        if op == "getelementptr":
            if I.cache is None:
                m = re.match(r"getelementptr (?:inbounds )?(.*)$", t)
                I.cache = split_top(m.group(1))
            env[(fr, I.res)] = self.gep(st, fr, I.cache)
            return
        if op == "fneg":
            a = self.val(st, fr, "double", t.split()[-1])
            env[(fr, I.res)] = fneg(a)
            return
        if op in ("add", "sub", "mul", "sdiv", "srem", "udiv", "urem", "shl", "ashr", "lshr", "and", "or", "xor"):
            m = re.match(rf"{op} (?:nuw |nsw |exact )*(\w+) (.*), (.*)$", t)
            ty = m.group(1)
            a, b = self.val(st, fr, ty, m.group(2)), self.val(st, fr, ty, m.group(3))
            env[(fr, I.res)] = self.intop(op, ty, a, b)
            return
        if op in ("sitofp", "uitofp"):
            m = re.match(rf"{op} (\w+) (.*) to double", t)
            a = self.val(st, fr, m.group(1), m.group(2))
            if isinstance(a, bool):
                a = int(a)
            env[(fr, I.res)] = z3.ToReal(Iz(a)) if is_sym(a) else Fraction(a)
            return
        if op in ("fptosi", "fptoui"):
            m = re.match(rf"{op} double (.*) to (\w+)", t)
            a = val_of(self.val(st, fr, "double", m.group(1)))
            if is_sym(a):
                raise Inconclusive("fptosi on symbolic value")
            env[(fr, I.res)] = int(a)  # truncation toward zero
            return
        if op in ("sext", "zext"):
            m = re.match(rf"{op} (.*?) (\S+) to (.*)$", t)
            v = self.val(st, fr, m.group(1), m.group(2))
            if m.group(1) == "i1":
                if isinstance(v, bool):
                    v = (1 if v else 0) if op == "zext" else (-1 if v else 0)
                elif is_sym(v):
                    v = z3.If(v, z3.IntVal(1 if op == "zext" else -1), z3.IntVal(0))
            env[(fr, I.res)] = v
            return
        if op == "trunc":
            m = re.match(r"trunc (.*?) (\S+) to (.*)$", t)
            v = self.val(st, fr, m.group(1), m.group(2))
            if is_sym(v):
                if m.group(3) == "i1":
                    v = (v % 2) == 1
                elif not getattr(self, "trunc_identity", False):
                    raise Inconclusive("trunc of symbolic integer")
            else:
                bits = int(m.group(3)[1:])
                v = int(v) & ((1 << bits) - 1)
                if m.group(3) == "i1":
                    v = bool(v)
                elif v >= 1 << (bits - 1):
                    v -= 1 << bits
            env[(fr, I.res)] = v
            return
        if op in ("bitcast", "ptrtoint", "inttoptr", "addrspacecast"):
            m = re.match(rf"{op} (.*?) (\S+) to (.*)$", t)
            env[(fr, I.res)] = self.val(st, fr, m.group(1), m.group(2))
            return
        if op == "icmp":
            m = re.match(r"icmp (\w+) (.*?) (\S+), (\S+)$", t)
            pred, ty = m.group(1), m.group(2)
            a, b = self.val(st, fr, ty, m.group(3)), self.val(st, fr, ty, m.group(4))
            env[(fr, I.res)] = self.icmp(pred, ty, a, b)
            return
        if op == "fcmp":
            m = re.match(r"fcmp (?:\w+ )*?(\w+) double (\S+), (\S+)$", t)
            a = val_of(self.val(st, fr, "double", m.group(2)))
            b = val_of(self.val(st, fr, "double", m.group(3)))
            p = m.group(1)
            if p in ("true", "false"):
                env[(fr, I.res)] = p == "true"
                return
            if p in ("ord", "uno"):
                env[(fr, I.res)] = p == "ord"  # reals are never NaN
                return
            p = p[1:]
            if _conc(a) and _conc(b):
                a, b = Fraction(a), Fraction(b)
                env[(fr, I.res)] = {"lt": a < b, "le": a <= b, "gt": a > b, "ge": a >= b, "eq": a == b, "ne": a != b}[p]
            else:
                a, b = R(a), R(b)
                env[(fr, I.res)] = {"lt": a < b, "le": a <= b, "gt": a > b, "ge": a >= b, "eq": a == b, "ne": a != b}[p]
            return
        if op == "alloca":
            m = re.match(r"alloca ([^,]*)(?:, (\w+) (\S+))?$", t)
            size, _ = self.type_size_align(m.group(1))
            if m.group(2):
                n = self.val(st, fr, m.group(2), m.group(3))
                if is_sym(n):
                    raise Inconclusive("symbolic alloca")
                size *= n
            self.nobj += 1
            o = f"stack{self.nobj}"
            st.size[o] = size
            env[(fr, I.res)] = Ptr(o, 0)
            return
        if op == "select":
            m = re.match(r"select (?:\w+ )*?i1 (\S+), (.*)$", t)
            c = self.val(st, fr, "i1", m.group(1))
            a, b = [self.typed(st, fr, x)[1] for x in split_top(m.group(2))]
            c = self.simp_bool(c)
            env[(fr, I.res)] = (a if c else b) if isinstance(c, bool) else merge_val(c, a, b)
            return
        if op == "br":
            if I.cache is None:
                m = re.match(r"br i1 (\S+), label %([\w.$-]+), label %([\w.$-]+)", t)
                I.cache = m.groups() if m else (None, re.match(r"br label %([\w.$-]+)", t).group(1))
            if I.cache[0] is None:
                return ("goto", I.cache[1])
            c = self.simp_bool(self.val(st, fr, "i1", I.cache[0]))
            if isinstance(c, bool):
                return ("goto", I.cache[1] if c else I.cache[2])
            return ("branch", c, I.cache[1], I.cache[2])
        if op == "switch":
            m = re.match(r"switch (\w+) (\S+), label %([\w.$-]+) \[(.*)\]$", t)
            v = self.val(st, fr, m.group(1), m.group(2))
            cases = re.findall(r"\w+ (-?\d+), label %([\w.$-]+)", m.group(4))
            if is_sym(v):
                raise Inconclusive("symbolic switch")
            for cv, lab in cases:
                if int(cv) == v:
                    return ("goto", lab)
            return ("goto", m.group(3))
        if op == "ret":
            if t.strip() == "ret void":
                return ("ret", None)
            ty, v = self.typed(st, fr, t[4:])
            return ("ret", v)
        if op == "unreachable":
            return ("ret", None)
        if op in ("call", "invoke"):
            return self.exec_call(fn, fr, st, I)
        if op == "extractvalue":
            m = re.match(r"extractvalue (.*), (\d+)$", t)
            _, agg = self.typed(st, fr, m.group(1))
            env[(fr, I.res)] = agg[int(m.group(2))] if isinstance(agg, (list, tuple)) else None
            return
        if op == "insertvalue":
            env[(fr, I.res)] = None
            return
        if op == "landingpad":
            env[(fr, I.res)] = st.load("$eh", 0) or (Ptr("exc", 0), 1)
            return
        if op == "resume":
            return ("ret", Throw(None, 1))  # the in-flight exception continues to propagate
        if op == "freeze":
            ty, v = self.typed(st, fr, t[7:])
            env[(fr, I.res)] = v
            return
        raise Inconclusive(f"opcode {op}: {t[:80]}")

    def exec_call(self, fn, fr, st, I):
        t = I.text
        if I.cache is None:
            m = re.match(r"(?:call|invoke) (.*?)(@[\w.$]+|%[\w.$-]+)\((.*)\)(?:\s+to label %([\w.$-]+) unwind label %([\w.$-]+))?\s*$", t)
            if not m:
                raise Inconclusive(f"call syntax: {t[:100]}")
            I.cache = (m.group(2), split_top(m.group(3)) if m.group(3).strip() else [], m.group(4), m.group(5), strip_attrs(m.group(1)))
        callee, argtoks, normal, unwind, rettype = I.cache
        if callee.startswith("%"):
            target = st.get((fr, callee))
            if isinstance(target, Ptr) and target.obj.startswith("global:@"):
                name = target.obj[8:]
            elif getattr(self, "opaque_indirect", False):
                # virtual call through an unknown object (e.g. e.what()): opaque result
                self.fresh += 1
                rt = re.sub(r"\(.*$", "", rettype).strip()
                if I.res:
                    st.env[(fr, I.res)] = Ptr(f"opaque!{self.fresh}", 0) if rt.endswith("*") else (z3.Real(f"opaque!{self.fresh}") if rt == "double" else z3.Int(f"opaque!{self.fresh}"))
                    if rt.endswith("*"):
                        st.size[f"opaque!{self.fresh}"] = 1 << 20
                return ("goto", normal) if normal else None
            else:
                raise Inconclusive("indirect call")
        else:
            name = callee[1:]
        if name.startswith(("llvm.lifetime", "llvm.dbg", "llvm.assume", "llvm.experimental.noalias")):
            return ("goto", normal) if normal else None
        args = [self.typed(st, fr, a)[1] if a != "..." else None for a in argtoks]
        _, ret = self.call(st, name, args)
        if isinstance(ret, Throw):
            if not unwind:
                # propagate out of this function
                return ("ret", ret)
            st.store("$eh", 0, (ret.payload, ret.selector))
            return ("goto", unwind)
        if I.res:
            st.env[(fr, I.res)] = ret
        if normal:
            return ("goto", normal)
        return

    # ---------------------------------------------------------------- helpers
    def simp_bool(self, c):
        if is_sym(c):
            c = z3.simplify(c)
            if z3.is_true(c):
                return True
            if z3.is_false(c):
                return False
        elif not isinstance(c, bool):
            c = bool(c)
        return c

    def intop(self, op, ty, a, b):
        if isinstance(a, Ptr) or isinstance(b, Ptr):
            raise Inconclusive("pointer arithmetic through integers")
        if ty == "i1" or isinstance(a, bool) or isinstance(b, bool) or (is_sym(a) and z3.is_bool(a)) or (is_sym(b) and z3.is_bool(b)):
            if ty != "i1":
                raise Inconclusive("bool in integer op")
            if not is_sym(a) and not is_sym(b):
                a, b = bool(a), bool(b)
                return {"and": a and b, "or": a or b, "xor": a != b, "add": a != b, "sub": a != b, "mul": a and b}[op]
            a, b = Bz(a), Bz(b)
            return {"and": z3.And(a, b), "or": z3.Or(a, b), "xor": z3.Xor(a, b), "add": z3.Xor(a, b), "sub": z3.Xor(a, b)}[op]
        if not is_sym(a) and not is_sym(b):
            bits = int(ty[1:])
            M = 1 << bits

            def wrap(x):
                x &= M - 1
                return x - M if x >= M >> 1 else x

            if op == "add":
                return wrap(a + b)
            if op == "sub":
                return wrap(a - b)
            if op == "mul":
                return wrap(a * b)
            if op == "sdiv":
                q = abs(a) // abs(b)
                return wrap(q if (a < 0) == (b < 0) else -q)
            if op == "srem":
                q = abs(a) // abs(b)
                q = q if (a < 0) == (b < 0) else -q
                return wrap(a - q * b)
            if op == "udiv":
                return wrap((a % M) // (b % M))
            if op == "urem":
                return wrap((a % M) % (b % M))
            if op == "shl":
                return wrap(a << b)
            if op == "ashr":
                return wrap(a >> b)
            if op == "lshr":
                return wrap((a % M) >> b)
            if op == "and":
                return wrap((a % M) & (b % M))
            if op == "or":
                return wrap((a % M) | (b % M))
            if op == "xor":
                return wrap((a % M) ^ (b % M))
        if op == "add":
            return Iz(a) + Iz(b)
        if op == "sub":
            return Iz(a) - Iz(b)
        if op == "and" and ty == "i8" and ((not is_sym(b) and b == 1) or (not is_sym(a) and a == 1)):
            # a C++ bool read back from memory and masked to its low bit (the stored byte is 0 or 1 on every path that the
            # front end generates; mod keeps the meaning for any byte)
            return Iz(a if is_sym(a) else b) % 2
        raise Inconclusive(f"symbolic integer in {op}")

    def icmp(self, pred, ty, a, b):
        if isinstance(a, Ptr) or isinstance(b, Ptr):
            if not (isinstance(a, Ptr) and isinstance(b, Ptr)):
                raise Inconclusive("pointer/integer comparison")
            if pred not in ("eq", "ne"):
                raise Inconclusive("ordered pointer comparison")
            return (a == b) == (pred == "eq")
        if isinstance(a, bool) or isinstance(b, bool) or (is_sym(a) and z3.is_bool(a)) or (is_sym(b) and z3.is_bool(b)):
            if not is_sym(a) and not is_sym(b):
                return (bool(a) == bool(b)) == (pred == "eq")
            e = Bz(a) == Bz(b)
            return e if pred == "eq" else z3.Not(e)
        bits = int(ty[1:]) if re.match(r"^i\d+$", ty) else 64
        W = 1 << bits
        if pred[0] == "u":
            if is_sym(a) or is_sym(b):
                a = z3.If(a < 0, a + W, a) if is_sym(a) else a % W
                b = z3.If(b < 0, b + W, b) if is_sym(b) else b % W
            else:
                a, b = a % W, b % W
        f = {
            "eq": lambda: a == b, "ne": lambda: a != b,
            "sgt": lambda: a > b, "sge": lambda: a >= b, "slt": lambda: a < b, "sle": lambda: a <= b,
            "ugt": lambda: a > b, "uge": lambda: a >= b, "ult": lambda: a < b, "ule": lambda: a <= b,
        }[pred]
        return f()

    @staticmethod
    def _bits(v, byte_off, nbytes):
        x = (v >> (8 * byte_off)) & ((1 << (8 * nbytes)) - 1)
        if x >= 1 << (8 * nbytes - 1):
            x -= 1 << (8 * nbytes)
        return x

    def load(self, st, p, ty):
        n, _ = self.type_size_align(ty)
        if not isinstance(p, Ptr):
            raise Inconclusive(f"load through non-pointer {p!r}")
        if p.obj.startswith("global:"):
            name = p.obj[7:]
            cg = getattr(self, "const_globals", None)
            if cg and name in cg and p.off == 0:
                return cg[name]
            v = st.load(p.obj, p.off)
            if v is not None:
                return v
            cells = self.materialise_global(name)
            if cells is not None:
                if p.off in cells:
                    return cells[p.off]
                self.oob.append((st.pathcond(), f"load of {n} bytes at {p.obj}+{p.off}"))
                return self.init_cell(p.obj, p.off, ty)
            # extern global without initializer: a symbol named after it
            key = (name, p.off)
            if key not in self.extern_syms:
                nm = name[1:] + (f"+{p.off}" if p.off else "")
                self.extern_syms[key] = z3.Real(nm) if ty == "double" else (Ptr("ext:" + nm, 0) if ty.endswith("*") else z3.Int(nm))
            return self.extern_syms[key]
        if not self.check(st, p, n, "load"):
            return self.init_cell(p.obj + "!oob", p.off, ty)
        v = st.load(p.obj, p.off)
        if ty in ("i32", "i16", "i8") and not ty.endswith("*"):
            # an i64 store (SROA-merged pair of ints) read back as i32 halves
            if v is not None and isinstance(v, int) and not isinstance(v, bool) and (st.load(p.obj, ("w", p.off)) or 0) > n:
                v = self._bits(v, 0, n)
            elif v is None:
                for back in (4, 2, 1, 6, 3, 5, 7):
                    v2 = st.load(p.obj, p.off - back)
                    w2 = st.load(p.obj, ("w", p.off - back)) or 0
                    if v2 is not None and isinstance(v2, int) and not isinstance(v2, bool) and w2 >= back + n:
                        v = self._bits(v2, back, n)
                        break
        if v is None:
            v = self.init_cell(p.obj, p.off, ty)
        elif isinstance(v, Fraction) and ty != "double" and v.denominator == 1 and not ty.endswith("*"):
            v = int(v)
        elif ty == "double" and isinstance(v, int) and not isinstance(v, bool):
            v = Fraction(v)
        return v

    def store(self, st, p, ty, v):
        n, _ = self.type_size_align(ty)
        if not isinstance(p, Ptr):
            raise Inconclusive(f"store through non-pointer {p!r}")
        if not p.obj.startswith("global:"):
            if not self.check(st, p, n, "store"):
                return
        st.store(p.obj, p.off, v)
        if ty == "i64" and isinstance(v, int) and not isinstance(v, bool):
            st.store(p.obj, ("w", p.off), 8)
        elif st.load(p.obj, ("w", p.off)):
            st.store(p.obj, ("w", p.off), 0)
        hook = self.store_hooks.get(p.obj) if hasattr(self, "store_hooks") else None
        if hook:
            hook(st, p, v)


class _Cut:
    def __repr__(self):
        return "CUT"


CUT = _Cut()


class Throw:
    """result of a stubbed call that throws"""

    def __init__(self, payload=None, selector=1):
        self.payload, self.selector = payload, selector


class RetSet:
    """guarded set of exits of a region (returns and cut back edges)"""

    def __init__(self, items):
        self.items = items  # list of (guard, value)

    @staticmethod
    def lift(r):
        if isinstance(r, RetSet):
            return r.items
        return [(z3.BoolVal(True), r)]

    @staticmethod
    def join(c, ra, rb):
        out = [(z3.And(c, g), v) for g, v in RetSet.lift(ra)]
        out += [(z3.And(z3.Not(c), g), v) for g, v in RetSet.lift(rb)]
        return RetSet(out)
