"""Equality of two real terms *up to rounding of folded literal constants*.

The generator multiplies coefficients in Python floating point and prints the product as one literal
(alpha*beta, E_b/A, reduced masses ...).  Over the reals such a literal differs from the exact product of
the database values by ~1e-16 relative, so the solver correctly answers `sat` for `emitted != law` although
the two are the same function up to the IEEE rounding that is outside every claim here.

`same_up_to_rounding(a, b)` decides the residual question syntactically: both terms are brought to z3's
sum-of-monomials normal form; they must have the same set of monomials (same variables, same uninterpreted
applications with structurally identical arguments, same guards of if-then-else) and every pair of
coefficients must agree to `rtol`.  It is only consulted after the solver answered `sat` and the native
build agreed with the law; it never turns a definite disagreement into agreement (a differing monomial or
coefficient beyond rtol is reported as different).
"""
from __future__ import annotations

from fractions import Fraction

import z3


def _num(e):
    if z3.is_rational_value(e):
        return Fraction(e.numerator_as_long(), e.denominator_as_long())
    if z3.is_int_value(e):
        return Fraction(e.as_long())
    return None


def _monomials(t):
    """sum-of-monomials view of a real term: {key: coefficient}; key = sorted tuple of the s-expressions of
    the non-numeric factors.  None if the term has a shape this view does not cover."""
    t = z3.simplify(t, som=True)
    out = {}
    addends = t.children() if z3.is_add(t) else [t]
    for m in addends:
        coeff = Fraction(1)
        atoms = []
        stack = [m]
        while stack:
            f = stack.pop()
            v = _num(f)
            if v is not None:
                coeff *= v
            elif z3.is_mul(f):
                stack.extend(f.children())
            elif z3.is_app_of(f, z3.Z3_OP_UMINUS):
                coeff = -coeff
                stack.append(f.arg(0))
            elif z3.is_app_of(f, z3.Z3_OP_POWER) and _num(f.arg(1)) is not None and _num(f.arg(1)).denominator == 1 and 0 < _num(f.arg(1)) <= 8 and _num(f.arg(0)) is None:
                atoms += [f.arg(0).sexpr()] * int(_num(f.arg(1)))
            else:
                atoms.append(f.sexpr())
        key = tuple(sorted(atoms))
        out[key] = out.get(key, Fraction(0)) + coeff
    return out


def same_up_to_rounding(a, b, rtol=Fraction(1, 10**12), depth=0):
    a, b = z3.simplify(a), z3.simplify(b)
    if a.eq(b):
        return True
    if depth < 6 and z3.is_app_of(a, z3.Z3_OP_ITE) and z3.is_app_of(b, z3.Z3_OP_ITE):
        ca, cb = z3.simplify(a.arg(0)), z3.simplify(b.arg(0))
        if ca.eq(cb):
            return same_up_to_rounding(a.arg(1), b.arg(1), rtol, depth + 1) and same_up_to_rounding(a.arg(2), b.arg(2), rtol, depth + 1)
        if ca.eq(z3.simplify(z3.Not(cb))):
            return same_up_to_rounding(a.arg(1), b.arg(2), rtol, depth + 1) and same_up_to_rounding(a.arg(2), b.arg(1), rtol, depth + 1)
        return False
    try:
        ma, mb = _monomials(a), _monomials(b)
    except z3.Z3Exception:
        return False
    # monomials with a coefficient that is zero on both sides are irrelevant
    keys = {k for k, v in ma.items() if v != 0} | {k for k, v in mb.items() if v != 0}
    for k in keys:
        x, y = ma.get(k, Fraction(0)), mb.get(k, Fraction(0))
        if x == y:
            continue
        if x == 0 or y == 0 or abs(x - y) > rtol * max(abs(x), abs(y)):
            return False
    return True
