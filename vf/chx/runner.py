"""Run CrossHair (symbolic execution of naunet's Python with z3) on harness modules.

One OS process per condition (`crosshair check --report_all file.py:LINE`) under
`timeout`; verdicts:
  'Confirmed over all paths'  -> discharged
  counterexample              -> candidate, replayed natively (without CrossHair)
  anything else               -> inconclusive
Every condition has a reachability twin (same preconditions, `post: False`),
which must be refuted -- otherwise the condition is vacuous.
"""
from __future__ import annotations

import ast
import concurrent.futures as cf
import importlib.util
import os
import re
import subprocess
import sys
import time

HERE = os.path.dirname(os.path.abspath(__file__))
VERIF = os.path.dirname(os.path.dirname(HERE))
PY = os.path.join(VERIF, ".venv", "bin", "python")


def conditions(path):
    """[(function name, line inside def, has 'post:' docstring)]"""
    src = open(path).read()
    tree = ast.parse(src)
    out = []
    for node in tree.body:
        if isinstance(node, ast.FunctionDef):
            doc = ast.get_docstring(node) or ""
            if "post:" in doc:
                out.append((node.name, node.lineno))
    return out


def _env():
    env = dict(os.environ, TQDM_DISABLE="1", PYTHONHASHSEED="0", NAUNET_VERIF="1", PYTHONDONTWRITEBYTECODE="1")
    env["PYTHONPATH"] = os.path.dirname(HERE) + os.pathsep + os.path.dirname(os.path.dirname(HERE))
    if os.environ.get("VERIF_REPO"):  # seeded-change trials only (see vf/paths.py)
        env["PYTHONPATH"] = os.environ["VERIF_REPO"] + os.pathsep + env["PYTHONPATH"]
    return env


def run_condition(path, name, line, timeout, extra=()):
    t0 = time.time()
    cmd = ["timeout", str(int(timeout * 1.5) + 30), PY, "-m", "crosshair", "check", "--report_all", "--per_condition_timeout", str(timeout), *extra, f"{path}:{line}"]
    r = subprocess.run(cmd, capture_output=True, text=True, env=_env(), cwd=os.path.dirname(path))
    out = (r.stdout + r.stderr).strip()
    wall = time.time() - t0
    verdict, detail, call = "inconclusive", out[-400:], None
    lines = [l for l in out.splitlines() if f"{os.path.basename(path)}:" in l or "error" in l or "info" in l]
    text = "\n".join(lines) or out
    if "Confirmed over all paths" in text:
        verdict = "confirmed"
    elif re.search(r": error: ", text):
        m = re.search(r"when calling (.*?)(?: \(which returns .*\))?$", text, re.M)
        verdict = "counterexample"
        call = m.group(1) if m else None
        detail = text[-600:]
    elif "Not confirmed" in text:
        verdict, detail = "inconclusive", "Not confirmed (paths not exhausted within the time budget)"
    elif "Unable to meet precondition" in text:
        verdict, detail = "inconclusive", "Unable to meet precondition"
    return {"name": name, "verdict": verdict, "detail": detail, "call": call, "wall": wall}


def load_module(path):
    spec = importlib.util.spec_from_file_location("chx_harness_" + os.path.basename(path)[:-3], path)
    mod = importlib.util.module_from_spec(spec)
    spec.loader.exec_module(mod)
    return mod


def replay(path, call):
    """re-run a reported counterexample natively in a subprocess; returns (reproduced, description)"""
    code = f"""
import sys, importlib.util
sys.path.insert(0, {os.path.dirname(HERE)!r}); sys.path.insert(0, {os.path.dirname(os.path.dirname(HERE))!r})
spec = importlib.util.spec_from_file_location('h', {path!r}); mod = importlib.util.module_from_spec(spec); spec.loader.exec_module(mod)
try:
    v = eval({call!r}, vars(mod))
    print('RESULT', repr(v))
except Exception as e:
    print('RAISED', type(e).__name__, e)
"""
    r = subprocess.run([PY, "-c", code], capture_output=True, text=True, env=_env(), cwd=os.path.dirname(path), timeout=300)
    out = r.stdout.strip().splitlines()
    last = out[-1] if out else (r.stderr[-300:] or "no output")
    if last.startswith("RESULT"):
        val = last[7:].strip()
        return (val == "False"), last
    if last.startswith("RAISED"):
        return True, last
    return False, last


UNBLOCK = ["open", "os.mkdir", "os.rmdir", "os.remove", "os.unlink", "os.scandir", "os.listdir", "shutil.rmtree", "tempfile.mkdtemp", "os.chmod", "os.rename", "os.open"]


def run_module(path, timeout, jobs=16, only=None, twins=True, unblock=False):
    conds = [(n, l) for n, l in conditions(path) if (only is None or n in only)]
    results = {}
    extra = ("--unblock=EVERYTHING",) if unblock else ()
    with cf.ThreadPoolExecutor(max_workers=jobs) as ex:
        futs = {ex.submit(run_condition, path, n, l, timeout, extra): n for n, l in conds}
        for f in cf.as_completed(futs):
            results[futs[f]] = f.result()
    return [results[n] for n, _ in conds]
