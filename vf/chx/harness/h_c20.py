"""C20 (option parser) -- `naunet init` turns option strings into the configured lists and
tables.  InitCommand.handle runs on a duck-typed `self`; BaseConfiguration is replaced by
a recorder and the file write by a no-op, so the *parsing code of the real command* is
executed symbolically by CrossHair on short symbolic option strings."""
import io

import prelude  # noqa: F401
import naunet.console.commands.init as init_mod
from naunet.console.commands.init import InitCommand

RECORDED = {}


class Recorder:
    def __init__(self, name, **kw):
        RECORDED.clear()
        RECORDED.update(kw)
        RECORDED["name"] = name

    content = ""


class NullFile(io.StringIO):
    def __enter__(self):
        return self

    def __exit__(self, *a):
        return False


class NoPath:
    """stands in for pathlib.Path inside handle(): no file system access"""

    def __init__(self, *a):
        pass

    @staticmethod
    def cwd():
        return NoPath()

    def __truediv__(self, o):
        return NoPath()

    def exists(self):
        return False

    name = "proj"


init_mod.BaseConfiguration = Recorder
init_mod.open = lambda *a, **k: NullFile()

DEFAULTS = {"name": "p", "description": "d", "loading": "", "elements": "H,C", "pseudo-elements": "CR", "element-replacement": "", "surface-prefix": "#", "bulk-prefix": "@", "allowed-species": "", "extra-species": "",
            "binding": "", "yield": "", "grain-symbol": "GRAIN", "grain-model": "", "network-files": "a.kida", "file-formats": "kida", "heating": "", "cooling": "", "shielding": "", "rate-modifier": [], "ode-modifier": [],
            "solver": "cvode", "device": "cpu", "method": "dense", "render": False, "render-force": False}


class FakeSelf:
    def __init__(self, opts):
        self.opts = opts

    def option(self, key=None):
        v = self.opts.get(key)
        if isinstance(v, str):
            v = v.replace("null", "")
        return v

    def validate(self, value, question, default):
        return default if value is None else value

    def confirm(self, *a, **k):
        return False

    def choice(self, *a, **k):
        return "dense"

    def call(self, *a, **k):
        return 0


def _run(key, value):
    import pathlib

    opts = dict(DEFAULTS)
    opts[key] = value
    real = pathlib.Path
    pathlib.Path = NoPath
    try:
        InitCommand.handle(FakeSelf(opts))
    finally:
        pathlib.Path = real
    return dict(RECORDED)


def _items(s):
    return [x.strip() for x in s.split(",") if x.strip()]


def list_option_elements(s: str) -> bool:
    """
    pre: len(s) <= 4 and all(c in "aB, " for c in s)
    post: _ == True
    """
    return _run("elements", s)["element"] == _items(s)


def list_option_allowed(s: str) -> bool:
    """
    pre: len(s) <= 4 and all(c in "H2, " for c in s)
    post: _ == True
    """
    return _run("allowed-species", s)["allowed_species"] == _items(s)


def list_option_cooling(s: str) -> bool:
    """
    pre: len(s) <= 4 and all(c in "ab, " for c in s)
    post: _ == True
    """
    return _run("cooling", s)["cooling"] == _items(s)


def table_option_replacement(s: str) -> bool:
    """
    pre: len(s) <= 4 and all(c in "aB:, " for c in s)
    post: _ == True
    """
    want = {}
    ok = True
    for it in s.split(","):
        if not it.strip():
            continue
        if it.count(":") != 1:
            ok = False
            break
        k, v = it.split(":")
        want[k.strip()] = v.strip()
    try:
        got = _run("element-replacement", s)["replacement"]
    except Exception:
        return not ok  # malformed tables may be refused, well-formed ones must not
    return (not ok) or got == want


def table_option_binding_keys(s: str) -> bool:
    """
    pre: len(s) <= 3 and all(c in "aB #" for c in s) and len(s.strip()) >= 1
    post: _ == True
    """
    # key text is symbolic, the value is a fixed literal: keys must be stored stripped
    got = _run("binding", s + "=1150.0")["binding_energy"]
    return got == {s.strip(): 1150.0}


def option_reach(s: str) -> bool:
    """
    pre: len(s) <= 2 and all(c in "a," for c in s)
    post: _ == False
    """
    return _run("elements", s)["element"] == _items(s)
