"""Common set-up for CrossHair harness modules (imported first by each of them)."""
import logging
import os
import re as _re

os.environ["TQDM_DISABLE"] = "1"
logging.disable(logging.CRITICAL)

import naunet.network as _nw  # noqa: E402
import naunet.species as _sp  # noqa: E402

_nw.tqdm = lambda x, **k: x  # stub: progress bar -> identity

try:
    from crosshair.tracers import NoTracing
    from crosshair import realize
except Exception:  # native replay without crosshair installed
    import contextlib

    NoTracing = contextlib.nullcontext

    def realize(x):
        return x


def concrete(x):
    """deep-realise a (possibly symbolic) selector value: the solver still enumerates
    every value within the precondition, but the code under test then runs untraced"""
    x = realize(x)
    if isinstance(x, (list, tuple)):
        return type(x)(concrete(v) for v in x)
    if isinstance(x, dict):
        return {concrete(k): concrete(v) for k, v in x.items()}
    return x


class _Re:
    """pass-through for `re` whose sub() runs the C implementation untraced when all
    arguments are concrete (CrossHair 0.0.110 recurses without bound on re.sub with
    an empty-matching pattern such as r'\\+*$' on *concrete* strings)"""

    def __getattr__(self, k):
        return getattr(_re, k)

    def sub(self, pat, rep, s, *a, **k):
        if type(s) is str and type(pat) is str and type(rep) is str:
            with NoTracing():
                return _re.sub(pat, rep, s, *a, **k)
        return _re.sub(pat, rep, s, *a, **k)


_sp.re = _Re()
