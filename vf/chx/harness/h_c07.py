"""C07 -- reaction files of all six formats are decoded faithfully.

An abstract reaction is chosen by symbolic selectors (species incl. names at the
column-width limit, marker tokens, type codes, boundary integers, signed /
exponent-notation literals), written by the independent encoders of vf/encoders.py,
decoded by the real parser (untraced) and compared with what was encoded."""
import os
import sys
import tempfile
from typing import List

import prelude  # noqa: F401

sys.path.insert(0, os.path.dirname(os.path.dirname(os.path.dirname(os.path.dirname(os.path.abspath(__file__))))))
from vf import encoders  # noqa: E402

from naunet.network import Network, _reaction_factory, supported_reaction_class  # noqa: E402
from naunet.species import Species  # noqa: E402

MARKERS = {"kida": ["CR", "Photon", "CRP"], "umist": ["CRP", "PHOTON", "CRPHOT"], "leeds": ["CRP", "PHOTON", "CRPHOT"], "uclchem": [], "naunet": ["CR", "PHOTON", "CRPHOT"], "krome": ["Photon"]}
SPEC = {
    "kida": ["", "H", "H2", "e-", "C+", "He++", "CH3COOCH3+", "HCOOCH3"],
    "umist": ["", "H", "H2", "e-", "C+", "He++", "CH3COOCH3+", "C10H2+"],
    "leeds": ["", "H", "H2", "e-", "C+", "He++", "CH3COCH3+", "GCO"],
    "uclchem": ["", "H", "H2", "E-", "C+", "HE++", "#CO", "CH3OH"],
    "naunet": ["", "H", "H2", "e-", "C+", "He++", "CH3COOCH3+", "#CH3OH"],
    "krome": ["", "H", "H2", "e-", "C+", "He++", "HCOOCH3+", "oH2D+"],
}
MAXR = {"kida": 3, "umist": 2, "leeds": 3, "uclchem": 3, "naunet": 3, "krome": 3}
MAXP = {"kida": 5, "umist": 4, "leeds": 5, "uclchem": 4, "naunet": 5, "krome": 5}
LIT_A = ["1.0e-10", "-2.500e-10", "0.0", "1E-9", "3.14", "5e-324", "1.0e+20", "7"]  # incl. a signed literal that fills the 10-character column
LIT_A_LEEDS = ["1.0E-10", "-2.5E-10", "0.00", "1E-9", "3.14", "5E-324", "1.0E+20", "7"]  # -2.5E-10 fills the 8-character column
LIT_B = ["0.0", "-0.5", "2.75", "1e-3", "-1.50e+00", "12.5", "0.5", "-3.040e+04"]  # 9- and 10-character signed literals fill the Leeds/KIDA columns
WIN = [("10", "300"), ("-9999", "9999"), ("0", "0"), ("10", "41000"), ("5", "20"), ("100", "100"), ("2000", "41000"), ("1", "99999")]
IDX = [1, 7, 99, 1000, 6173, 9999, 99999, 12]
CODES = {
    "kida": [(1, 101), (2, 102), (3, 100), (4, 110), (5, 111), (6, 103), (0, 100), (7, 100)],
    "umist": [("AD", 100), ("CP", 101), ("CR", 120), ("PH", 102), ("DR", 100), ("IN", 100), ("REA", 100), ("RR", 100)],
    "leeds": [(1, 100), (2, 101), (3, 120), (4, 102), (7, 200), (13, 300), (20, 221), (14, 204)],
    "uclchem": [("", 100), ("CRP", 101), ("PHOTON", 102), ("CRPHOT", 120), ("FREEZE", 200), ("DESOH2", 210), ("THERM", 201), ("DEUVCR", 203)],
    "naunet": [(100, 100), (101, 101), (102, 102), (110, 110), (111, 111), (120, 120), (200, 200), (999, 999)],
    "krome": [(None, 999)] * 8,
}
REPL = {"uclchem": {"E": "e", "HE": "He"}}
ELEMS = {"uclchem": (["E", "H", "HE", "C", "O"], ["CR", "CRP", "PHOTON", "CRPHOT"])}


def _canon(fmt, name):
    if name.upper() in ("E", "E-"):
        return "e-"
    if fmt == "uclchem":
        name = name.replace("HE", "He")
    if fmt == "leeds" and name.startswith("G") and name not in ("GRAIN0", "GRAIN-"):
        return "#" + name[1:]
    return name


def _setup(fmt):
    Species.reset()
    if fmt in ELEMS:
        Species.set_known_elements(list(ELEMS[fmt][0]))
        Species.set_known_pseudoelements(list(ELEMS[fmt][1]))
        Species._replacement = dict(REPL.get(fmt, {}))
    cls = supported_reaction_class[fmt]
    cls.initialize()
    if fmt == "krome":
        cls.preprocessing("@format:idx,R,R,R,P,P,P,P,P,Tmin,Tmax,rate")
    return cls


def _decode(fmt, r):
    _setup(fmt)
    line = encoders.ENC[fmt](r)
    return _reaction_factory(line + "\n", fmt), line


def _names(fmt, lst):
    out = []
    for s in lst:
        n = s.name
        if s.is_surface and fmt == "leeds":
            n = "#" + s.gasname
        out.append(_canon(fmt, n))
    return sorted(out)


def _base(fmt):
    code = CODES[fmt][2][0] if fmt != "uclchem" else ""
    return {"reactants": ["H", "H2"], "products": ["H", "H", "H"], "a": (LIT_A_LEEDS if fmt == "leeds" else LIT_A)[0], "b": "0.5", "c": "3.0", "tmin": "10", "tmax": "300", "idx": 12, "code": code, "rate": "1.0d-10*T32"}


def _check(fmt, r, exp_type, reac):
    rs = sorted(_canon(fmt, x) for x in r["reactants"] if x and x not in MARKERS[fmt])
    ps = sorted(_canon(fmt, x) for x in r["products"] if x)
    if _names(fmt, reac.reactants) != rs or _names(fmt, reac.products) != ps:
        return False
    if fmt != "krome":
        if reac.alpha != float(r["a"]) or reac.beta != float(r["b"]) or reac.gamma != float(r["c"]):
            return False
    lo, hi = float(r["tmin"]), float(r["tmax"])
    if fmt == "uclchem" and r.get("code") == "FREEZE":
        lo, hi = 0.0, 30.0
    if reac.temp_min != lo or reac.temp_max != hi:
        return False
    if fmt != "uclchem" and reac.idxfromfile != int(r["idx"]):
        return False
    return int(reac.reaction_type) == exp_type


def _reactant_family(fmt, v):
    a, b, c = prelude.concrete(v)
    with prelude.NoTracing():
        pool = SPEC[fmt][1:] + MARKERS[fmt] + [""]
        picks = [pool[a % len(pool)] or "H", pool[b % len(pool)], pool[c % len(pool)]][: MAXR[fmt]]
        if fmt == "uclchem":
            picks = [p for p in picks if p]
        r = _base(fmt)
        r["reactants"] = [p for p in picks if p] if fmt != "krome" else [p for p in picks if p]
        if not [x for x in r["reactants"] if x not in MARKERS[fmt]]:
            r["reactants"] = ["H"] + r["reactants"][: MAXR[fmt] - 1]
        reac, line = _decode(fmt, r)
        return reac is not None and _check(fmt, r, CODES[fmt][2][1] if fmt != "uclchem" else 100, reac)


def _product_family(fmt, v):
    a, b, c = prelude.concrete(v)
    with prelude.NoTracing():
        pool = SPEC[fmt]
        n = MAXP[fmt]
        picks = [pool[a % 8], pool[b % 8], pool[c % 8], pool[(a + b) % 8], pool[(b + c) % 8]][:n]
        r = _base(fmt)
        r["products"] = [p for p in picks if p]
        reac, line = _decode(fmt, r)
        return reac is not None and _check(fmt, r, CODES[fmt][2][1] if fmt != "uclchem" else 100, reac)


def _numeric_family(fmt, v):
    a, b, c = prelude.concrete(v)
    with prelude.NoTracing():
        r = _base(fmt)
        r["a"], r["b"], r["c"] = (LIT_A_LEEDS if fmt == "leeds" else LIT_A)[a % 8], LIT_B[b % 8], LIT_B[c % 8]
        if fmt == "leeds" and len(r["b"]) > 9:
            r["b"] = "-3.04e+04"  # the beta column of the Leeds format is 9 characters wide
        if fmt == "krome":
            r["rate"] = f"{LIT_A[a % 8].replace('e', 'd') if 'e' in LIT_A[a % 8] else LIT_A[a % 8]}*T32"
        reac, line = _decode(fmt, r)
        return reac is not None and _check(fmt, r, CODES[fmt][2][1] if fmt != "uclchem" else 100, reac)


def _code_family(fmt, v):
    a, b, c = prelude.concrete(v)
    with prelude.NoTracing():
        r = _base(fmt)
        code, typ = CODES[fmt][a % 8]
        r["code"] = code
        r["tmin"], r["tmax"] = WIN[b % 8]
        r["idx"] = IDX[c % 8]
        if fmt == "uclchem" and code:
            r["reactants"] = ["H2"] if code not in ("FREEZE",) else ["H2"]
            r["products"] = ["H", "H"] if code != "FREEZE" else ["#CO"]
        if fmt == "leeds" and code in (7,):
            r["reactants"], r["products"] = ["H2"], ["GCO"]
        if fmt == "leeds" and code in (13, 14):
            r["reactants"], r["products"] = ["GCO", "GCO"], ["GCO"]
        if fmt == "leeds" and code == 20:
            r["reactants"], r["products"] = ["e-", "GRAIN0"], ["GRAIN-"]
        reac, line = _decode(fmt, r)
        return reac is not None and _check(fmt, r, typ, reac)


def _file_family(fmt, v):
    a, b, c = prelude.concrete(v)
    with prelude.NoTracing():
        _setup(fmt)
        rs = []
        for k in range(3):
            r = _base(fmt)
            r["idx"] = 5 + k
            r["a"] = (LIT_A_LEEDS if fmt == "leeds" else LIT_A)[k]
            rs.append(r)
        lines = [encoders.ENC[fmt](r) for r in rs]
        comment = {"krome": "# a comment line", "kida": "", "umist": "", "leeds": "", "uclchem": "", "naunet": ""}[fmt]
        extra = ["", "   ", comment] if fmt != "krome" else ["", "#comment", "@common:user_x"]
        out = list(lines)
        for pos, what in sorted(((a % 4, extra[0]), (b % 4, extra[1]), (c % 4, extra[2])), reverse=True):
            out.insert(pos, what)
        if fmt == "krome":
            out.insert(0, encoders.KROME_HEADER)
        tmp = tempfile.mkdtemp(prefix="naunet-verif-c07-")
        try:
            path = os.path.join(tmp, "net." + fmt)
            with open(path, "w") as fh:
                fh.write("\n".join(out) + "\n")
            net = Network(filelist=path, fileformats=fmt)
            got = [r_.alpha for r_ in net.reaction_list] if fmt != "krome" else [r_.idxfromfile for r_ in net.reaction_list]
            want = [float(r["a"]) for r in rs] if fmt != "krome" else [r["idx"] for r in rs]
            return got == want
        finally:
            import shutil

            shutil.rmtree(tmp, ignore_errors=True)


ISOMERS = ["c-C3H2", "l-C3H", "c-C3H3+", "l-C3H2", "oH2", "pH2D+", "H2*", "Mg+"]  # names that begin with a pseudo-element token


def _labelled_family(fmt, v):
    """species whose names begin with a pseudo-element label (isomers, ortho/para, excited) are species, not markers"""
    a, b, c = prelude.concrete(v)
    with prelude.NoTracing():
        r = _base(fmt)
        r["reactants"] = [ISOMERS[a % 8], ["H", "H3+", "e-"][c % 3]][: MAXR[fmt]]
        r["products"] = [ISOMERS[b % 8], "H2"]
        if c >= 4 and MARKERS[fmt] and MAXR[fmt] >= 3:
            r["reactants"].append(MARKERS[fmt][0])
        reac, line = _decode(fmt, r)
        return reac is not None and _check(fmt, r, CODES[fmt][2][1] if fmt != "uclchem" else 100, reac)


def kida_labelled(v: List[int]) -> bool:
    """
    pre: len(v) == 3 and all(0 <= x < 8 for x in v)
    post: _ == True
    """
    return _labelled_family("kida", v)


def umist_labelled(v: List[int]) -> bool:
    """
    pre: len(v) == 3 and all(0 <= x < 8 for x in v)
    post: _ == True
    """
    return _labelled_family("umist", v)


def naunet_labelled(v: List[int]) -> bool:
    """
    pre: len(v) == 3 and all(0 <= x < 8 for x in v)
    post: _ == True
    """
    return _labelled_family("naunet", v)


def krome_labelled(v: List[int]) -> bool:
    """
    pre: len(v) == 3 and all(0 <= x < 8 for x in v)
    post: _ == True
    """
    return _labelled_family("krome", v)


def kida_reactant(v: List[int]) -> bool:
    """
    pre: len(v) == 3 and all(0 <= x < 8 for x in v)
    post: _ == True
    """
    return _reactant_family("kida", v)


def kida_product(v: List[int]) -> bool:
    """
    pre: len(v) == 3 and all(0 <= x < 8 for x in v)
    post: _ == True
    """
    return _product_family("kida", v)


def kida_numeric(v: List[int]) -> bool:
    """
    pre: len(v) == 3 and all(0 <= x < 8 for x in v)
    post: _ == True
    """
    return _numeric_family("kida", v)


def kida_code(v: List[int]) -> bool:
    """
    pre: len(v) == 3 and all(0 <= x < 8 for x in v)
    post: _ == True
    """
    return _code_family("kida", v)


def kida_file(v: List[int]) -> bool:
    """
    pre: len(v) == 3 and all(0 <= x < 8 for x in v)
    post: _ == True
    """
    return _file_family("kida", v)


def umist_reactant(v: List[int]) -> bool:
    """
    pre: len(v) == 3 and all(0 <= x < 8 for x in v)
    post: _ == True
    """
    return _reactant_family("umist", v)


def umist_product(v: List[int]) -> bool:
    """
    pre: len(v) == 3 and all(0 <= x < 8 for x in v)
    post: _ == True
    """
    return _product_family("umist", v)


def umist_numeric(v: List[int]) -> bool:
    """
    pre: len(v) == 3 and all(0 <= x < 8 for x in v)
    post: _ == True
    """
    return _numeric_family("umist", v)


def umist_code(v: List[int]) -> bool:
    """
    pre: len(v) == 3 and all(0 <= x < 8 for x in v)
    post: _ == True
    """
    return _code_family("umist", v)


def umist_file(v: List[int]) -> bool:
    """
    pre: len(v) == 3 and all(0 <= x < 8 for x in v)
    post: _ == True
    """
    return _file_family("umist", v)


def umist_multifit(v: List[int]) -> bool:
    """
    pre: len(v) == 3 and all(0 <= x < 8 for x in v)
    post: _ == True
    """
    # an entry tabulated with several fits (NE = 2, 3): one reaction per line, and its coefficients *and* window are
    # those of the first block (the later blocks, whose references may contain the separator, are not mixed in)
    a, b, c = prelude.concrete(v)
    with prelude.NoTracing():
        r = _base("umist")
        r["a"], r["b"], r["c"] = LIT_A[a % 8], LIT_B[b % 8], LIT_B[(a + b) % 8]
        r["tmin"], r["tmax"] = WIN[c % 8]
        r["fits"] = [(LIT_A[(a + 1) % 8], LIT_B[(b + 1) % 8], LIT_B[(b + 2) % 8], r["tmax"], "3000")] + ([(LIT_A[(a + 2) % 8], "1.5", "-2.0", "3000", "41000")] if (a + c) % 2 else [])
        reac, line = _decode("umist", r)
        return reac is not None and _check("umist", r, CODES["umist"][2][1], reac)


def leeds_reactant(v: List[int]) -> bool:
    """
    pre: len(v) == 3 and all(0 <= x < 8 for x in v)
    post: _ == True
    """
    return _reactant_family("leeds", v)


def leeds_product(v: List[int]) -> bool:
    """
    pre: len(v) == 3 and all(0 <= x < 8 for x in v)
    post: _ == True
    """
    return _product_family("leeds", v)


def leeds_numeric(v: List[int]) -> bool:
    """
    pre: len(v) == 3 and all(0 <= x < 8 for x in v)
    post: _ == True
    """
    return _numeric_family("leeds", v)


def leeds_code(v: List[int]) -> bool:
    """
    pre: len(v) == 3 and all(0 <= x < 8 for x in v)
    post: _ == True
    """
    return _code_family("leeds", v)


def leeds_file(v: List[int]) -> bool:
    """
    pre: len(v) == 3 and all(0 <= x < 8 for x in v)
    post: _ == True
    """
    return _file_family("leeds", v)


def uclchem_reactant(v: List[int]) -> bool:
    """
    pre: len(v) == 3 and all(0 <= x < 8 for x in v)
    post: _ == True
    """
    return _reactant_family("uclchem", v)


def uclchem_product(v: List[int]) -> bool:
    """
    pre: len(v) == 3 and all(0 <= x < 8 for x in v)
    post: _ == True
    """
    return _product_family("uclchem", v)


def uclchem_numeric(v: List[int]) -> bool:
    """
    pre: len(v) == 3 and all(0 <= x < 8 for x in v)
    post: _ == True
    """
    return _numeric_family("uclchem", v)


def uclchem_code(v: List[int]) -> bool:
    """
    pre: len(v) == 3 and all(0 <= x < 8 for x in v)
    post: _ == True
    """
    return _code_family("uclchem", v)


def uclchem_file(v: List[int]) -> bool:
    """
    pre: len(v) == 3 and all(0 <= x < 8 for x in v)
    post: _ == True
    """
    return _file_family("uclchem", v)


def naunet_reactant(v: List[int]) -> bool:
    """
    pre: len(v) == 3 and all(0 <= x < 8 for x in v)
    post: _ == True
    """
    return _reactant_family("naunet", v)


def naunet_product(v: List[int]) -> bool:
    """
    pre: len(v) == 3 and all(0 <= x < 8 for x in v)
    post: _ == True
    """
    return _product_family("naunet", v)


def naunet_numeric(v: List[int]) -> bool:
    """
    pre: len(v) == 3 and all(0 <= x < 8 for x in v)
    post: _ == True
    """
    return _numeric_family("naunet", v)


def naunet_code(v: List[int]) -> bool:
    """
    pre: len(v) == 3 and all(0 <= x < 8 for x in v)
    post: _ == True
    """
    return _code_family("naunet", v)


def naunet_file(v: List[int]) -> bool:
    """
    pre: len(v) == 3 and all(0 <= x < 8 for x in v)
    post: _ == True
    """
    return _file_family("naunet", v)


def krome_reactant(v: List[int]) -> bool:
    """
    pre: len(v) == 3 and all(0 <= x < 8 for x in v)
    post: _ == True
    """
    return _reactant_family("krome", v)


def krome_product(v: List[int]) -> bool:
    """
    pre: len(v) == 3 and all(0 <= x < 8 for x in v)
    post: _ == True
    """
    return _product_family("krome", v)


def krome_numeric(v: List[int]) -> bool:
    """
    pre: len(v) == 3 and all(0 <= x < 8 for x in v)
    post: _ == True
    """
    return _numeric_family("krome", v)


KR_SURF = ["", "#CO", "#H", "CO", "#H2O", "H", "#CH3OH", "e-"]


def krome_surface_species(v: List[int]) -> bool:
    """
    pre: len(v) == 3 and all(0 <= x < 8 for x in v)
    post: _ == True
    """
    # what Network.write(format="krome") emits for a gas-grain network: '#' is the surface prefix inside a data line
    # (and the comment marker only at the beginning of a line)
    a, b, c = prelude.concrete(v)
    with prelude.NoTracing():
        r = _base("krome")
        r["reactants"] = [x for x in (KR_SURF[a] or "H", KR_SURF[(a + b) % 8]) if x]
        r["products"] = [x for x in (KR_SURF[b] or "#CO", KR_SURF[c], KR_SURF[(b + c) % 8]) if x]
        r["tmin"], r["tmax"] = ("10", "30") if c % 2 else ("NONE", "NONE")
        reac, line = _decode("krome", r)
        if c % 2 == 0:
            r["tmin"], r["tmax"] = "-1", "-1"
        if reac is None or not _check("krome", r, 999, reac):
            return False
        return reac.rate_string is not None and reac.rate_string.strip() == r["rate"]


KR_LO = ["", ">", ".GE.", ".GT."]
KR_HI = ["", "<", ".LE.", ".LT."]
KR_NUM = [("10", 10.0), ("1d2", 100.0), (".5d1", 5.0), ("2.73", 2.73), ("3.e4", 30000.0), (".25e2", 25.0), ("5.5e3", 5500.0), (".75", 0.75)]
KR_NONE = ["NONE", "N/A", ""]


def krome_window(v: List[int]) -> bool:
    """
    pre: len(v) == 3 and all(0 <= x < 8 for x in v)
    post: _ == True
    """
    # KROME window spellings: optional comparison operator, numbers with d-exponents and numbers that begin with the
    # decimal point, NONE placeholders
    a, b, c = prelude.concrete(v)
    with prelude.NoTracing():
        r = _base("krome")
        lo_txt, lo = KR_NUM[a % 8]
        hi_txt, hi = KR_NUM[b % 8]
        r["tmin"] = KR_LO[c % 4] + lo_txt
        r["tmax"] = KR_HI[(c // 4) % 2 * 2 + (a + b) % 2] + hi_txt
        if (a + c) % 7 == 0:
            r["tmin"], lo = KR_NONE[c % 3], -1.0
        if (b + c) % 7 == 0:
            r["tmax"], hi = KR_NONE[(c + 1) % 3], -1.0
        reac, line = _decode("krome", r)
        if reac is None:
            return False
        want_lo = lo if lo > 0 else reac.temp_min if reac.temp_min <= 0 else lo
        want_hi = hi if hi > 0 else reac.temp_max if reac.temp_max <= 0 else hi
        return reac.temp_min == want_lo and reac.temp_max == want_hi and _names("krome", reac.reactants) == ["H", "H2"] and reac.idxfromfile == 12


def krome_file(v: List[int]) -> bool:
    """
    pre: len(v) == 3 and all(0 <= x < 8 for x in v)
    post: _ == True
    """
    return _file_family("krome", v)


def decode_reach(v: List[int]) -> bool:
    """
    pre: len(v) == 3 and all(0 <= x < 2 for x in v)
    post: _ == False
    """
    return _numeric_family("kida", v)
