"""C15 -- duplicate detection.  Conditions are functions returning True when the
property holds; CrossHair searches each for an input making it False."""
from typing import List

import prelude  # noqa: F401
from naunet.network import Network


class Lab:
    """stub reaction whose identity is a symbolic integer label"""

    reactants = ()  # a stub reaction has no species (remove_reaction rebuilds the species caches)
    products = ()

    def __init__(self, label):
        self.label = label

    def __eq__(self, o):
        return isinstance(o, Lab) and self.label == o.label

    def __hash__(self):
        return hash(self.label)

    def __format__(self, spec):
        return f"L{self.label}"

    def __repr__(self):
        return f"Lab({self.label})"


def _net(labels):
    # the real constructor (whatever state it sets up), then the reaction list as stub reactions
    n = Network()
    n.reaction_list = [Lab(x) for x in labels]
    return n


def _expected(labels):
    dup = [i for i in range(len(labels)) if any(labels[j] == labels[i] for j in range(i))]
    first = []
    for i in range(len(labels)):
        if not any(labels[j] == labels[i] for j in range(i)) and any(labels[j] == labels[i] for j in range(i + 1, len(labels))):
            first.append(i)
    return dup, first


def dup_default(labels: List[int]) -> bool:
    """
    pre: len(labels) <= 4
    pre: all(0 <= x <= 3 for x in labels)
    post: _ == True
    """
    n = _net(labels)
    d, idx, first = n.find_duplicate_reaction()
    edup, efirst = _expected(labels)
    return idx == edup and [r.label for r in d] == [labels[i] for i in edup] and [r.label for r in first] == [labels[i] for i in efirst]


def dup_mode_string(labels: List[int]) -> bool:
    """
    pre: len(labels) <= 4
    pre: all(0 <= x <= 3 for x in labels)
    post: _ == True
    """
    n = _net(labels)
    d, idx, first = n.find_duplicate_reaction("minimal")
    edup, efirst = _expected(labels)
    return idx == edup and [r.label for r in first] == [labels[i] for i in efirst]


def _dup_remove(labels):
    n = _net(labels)
    d, idx, first = n.find_duplicate_reaction()
    n.remove_reaction(idx)
    rest = [r.label for r in n.reaction_list]
    d2, idx2, first2 = n.find_duplicate_reaction()
    distinct = []
    for x in labels:
        if x not in distinct:
            distinct.append(x)
    return rest == distinct and idx2 == [] and first2 == []


def dup_remove_leaves_one_per_class4(labels: List[int]) -> bool:
    """
    pre: len(labels) <= 4
    pre: all(0 <= x <= 3 for x in labels)
    post: _ == True
    """
    return _dup_remove(labels)


def dup_remove_leaves_one_per_class(labels: List[int]) -> bool:
    """
    pre: len(labels) <= 3
    pre: all(0 <= x <= 2 for x in labels)
    post: _ == True
    """
    return _dup_remove(labels)


def dup_reach(labels: List[int]) -> bool:
    """
    pre: len(labels) <= 4
    pre: all(0 <= x <= 3 for x in labels)
    post: _ == False
    """
    # reachability twin: must be refuted (the harness reaches its return with True)
    n = _net(labels)
    d, idx, first = n.find_duplicate_reaction()
    return True


# ----------------------------------------------------------------------------- (b) real Reaction objects
from naunet.reactions.reaction import Reaction  # noqa: E402
from naunet.reactiontype import ReactionType  # noqa: E402

with prelude.NoTracing():
    # (reactants, products, tmin, tmax, type) -- built concretely, selected symbolically
    POOL_DESC = [
        (("H", "CO"), ("HCO",), 10.0, 300.0, 100),
        (("CO", "H"), ("HCO",), 10.0, 300.0, 100),  # permuted reactants
        (("H", "CO"), ("HCO",), 300.0, 1000.0, 100),  # other window
        (("H", "CO"), ("HCO",), 10.0, 300.0, 102),  # other type
        (("H", "H"), ("H2",), -1.0, -1.0, 100),
        (("H", "H", "H"), ("H2", "H"), -1.0, -1.0, 100),
        (("H2", "H"), ("H", "H", "H"), -1.0, -1.0, 100),
        (("H", "H2"), ("H", "H", "H"), -1.0, -1.0, 100),  # permuted
        (("e-", "H+"), ("H",), -1.0, -1.0, 100),
        (("H+", "E"), ("H",), -1.0, -1.0, 100),  # other electron spelling
        (("H", "H"), ("H2", "H"), -1.0, -1.0, 100),  # same *sets* as entry 5, different multisets
        (("H2", "H"), ("H", "H"), -1.0, -1.0, 100),  # same sets as entries 6/7, different multisets
        (("H", "CO"), ("HCO",), 10.0, 800.0, 100),  # entry 0 with another upper bound only
        (("CO", "H"), ("HCO",), 5.0, 300.0, 100),  # entry 0 with another lower bound only
        (("H", "H+"), ("H2+",), -1.0, -1.0, 100),  # two reactants with the same bare formula ...
        (("H+", "H"), ("H2+",), -1.0, -1.0, 100),  # ... listed in the other order
        (("CO", "H"), ("HCO",), 10.0, 300.0, 999),  # entry 0 without type information (as read from a KROME file): matches any type
    ]
    # every entry carries its own database index (as reactions read from a numbered file do): no mode compares it
    POOL = [Reaction(list(r), list(p), lo, hi, reaction_type=ReactionType(t), idxfromfile=101 + k) for k, (r, p, lo, hi, t) in enumerate(POOL_DESC)]


def _canon(n):
    return "e-" if n.upper() in ("E", "E-") else n


def _key(desc, mode):
    """the equivalence each mode defines: default/brief compare species (spelling-
    independent); the string modes compare the *printed* names (documented: correct
    when all reactions use the same naming convention)"""
    r, p, lo, hi, t = desc
    if mode in ("minimal", "short"):
        base = (tuple(sorted(r)), tuple(sorted(p)))
        return base if mode == "minimal" else base + (lo, hi, t)
    base = (tuple(sorted(_canon(x) for x in r)), tuple(sorted(_canon(x) for x in p)))
    if mode == "brief":
        return base
    if mode == "typeless":
        return base + (lo, hi)
    return base + (lo, hi, t)


def _eqv(a, b, mode):
    """equivalence of two pool entries in a mode; in the default mode a reaction without type information
    (type 999) matches every type -- symmetric by definition"""
    if mode is None:
        return _key(a, "typeless") == _key(b, "typeless") and (a[4] == b[4] or 999 in (a[4], b[4]))
    return _key(a, mode) == _key(b, mode)


def _real(sel, mode):
    sel = prelude.concrete(sel)
    with prelude.NoTracing():
        return _real_untraced(sel, mode)


def _real_untraced(sel, mode):
    n = Network()
    n.reaction_list = [POOL[i] for i in sel]
    d, idx, first = n.find_duplicate_reaction(mode)
    # the documented scan: a reaction is a duplicate of the first *kept* reaction it is equivalent to
    descs = [POOL_DESC[i] for i in sel]
    kept, edup, efirst = [], [], []
    for i, d_ in enumerate(descs):
        j = next((k for k in kept if _eqv(descs[k], d_, mode)), None)
        if j is None:
            kept.append(i)
        else:
            edup.append(i)
            if j not in efirst:
                efirst.append(j)
    efirst.sort()
    return idx == edup and [r is n.reaction_list[i] for r, i in zip(first, efirst)] == [True] * len(efirst) and len(first) == len(efirst)


def real_default(sel: List[int]) -> bool:
    """
    pre: len(sel) <= 3
    pre: all(0 <= x < 17 for x in sel)
    post: _ == True
    """
    return _real(sel, None)


def real_brief(sel: List[int]) -> bool:
    """
    pre: len(sel) <= 3
    pre: all(0 <= x < 17 for x in sel)
    post: _ == True
    """
    return _real(sel, "brief")


def real_minimal(sel: List[int]) -> bool:
    """
    pre: len(sel) <= 3
    pre: all(0 <= x < 17 for x in sel)
    post: _ == True
    """
    return _real(sel, "minimal")


def real_short(sel: List[int]) -> bool:
    """
    pre: len(sel) <= 3
    pre: all(0 <= x < 17 for x in sel)
    post: _ == True
    """
    return _real(sel, "short")


def _scan_matches(n, descs, mode):
    d, idx, first = n.find_duplicate_reaction(mode)
    kept, edup = [], []
    for i, d_ in enumerate(descs):
        j = next((k for k in kept if _eqv(descs[k], d_, mode)), None)
        if j is None:
            kept.append(i)
        else:
            edup.append(i)
    return idx == edup


def rescan_after_edit(sel: List[int]) -> bool:
    """
    pre: len(sel) == 3
    pre: all(0 <= x < 17 for x in sel) and sel[2] < 4
    post: _ == True
    """
    # a network is scanned, the window and type of one reaction are then edited through the API (so that it becomes
    # a repeat of another one, or stops being one), and the network is scanned again: every mode reports the
    # duplicates of the network as it is *now*
    sel = prelude.concrete(sel)
    with prelude.NoTracing():
        a, b, m = sel
        mode = [None, "brief", "minimal", "short"][m % 4]
        descs = [POOL_DESC[a], POOL_DESC[b]]
        n = Network()
        n.reaction_list = [Reaction(list(r), list(p), lo, hi, reaction_type=ReactionType(t), idxfromfile=201 + k) for k, (r, p, lo, hi, t) in enumerate(descs)]
        if not _scan_matches(n, descs, mode):
            return False
        r0, r1 = n.reaction_list
        # edit: the second reaction takes the window and type of the first
        r1.temp_min, r1.temp_max, r1.reaction_type = r0.temp_min, r0.temp_max, r0.reaction_type
        descs = [descs[0], (descs[1][0], descs[1][1], descs[0][2], descs[0][3], descs[0][4])]
        if not _scan_matches(n, descs, mode):
            return False
        # and back to something else
        r1.temp_max = 12345.0
        descs = [descs[0], (descs[1][0], descs[1][1], descs[1][2], 12345.0, descs[1][4])]
        return _scan_matches(n, descs, mode)


# ----------------------------------------------------------------------------- (c) reactions read from different formats
import os as _os  # noqa: E402
import sys as _sys  # noqa: E402

_sys.path.insert(0, _os.path.dirname(_os.path.dirname(_os.path.dirname(_os.path.dirname(_os.path.abspath(__file__))))))
from vf import encoders as _enc  # noqa: E402

with prelude.NoTracing():
    from naunet.network import _reaction_factory, supported_reaction_class

    def _mk(fmt, r, p, lo, hi, code, idx):
        cls = supported_reaction_class[fmt]
        cls.initialize()
        if fmt == "krome":
            cls.preprocessing(_enc.KROME_HEADER)
        line = _enc.ENC[fmt]({"reactants": list(r), "products": list(p), "a": "1.0e-10", "b": "0.0", "c": "0.0", "tmin": lo, "tmax": hi, "idx": idx, "code": code, "rate": "1.0d-10"})
        return _reaction_factory(line + "\n", fmt)

    # (format, reactants, products, window, format code, type the code denotes)
    MIXED_DESC = [
        ("kida", ("H", "CO"), ("HCO",), "10", "300", 3, 100), ("umist", ("CO", "H"), ("HCO",), "10", "300", "NN", 100), ("krome", ("H", "CO"), ("HCO",), "10", "300", None, 999),
        ("naunet", ("H", "CO"), ("HCO",), "10.00", "300.00", 100, 100), ("kida", ("H", "CO"), ("HCO",), "10", "800", 3, 100), ("umist", ("H", "H2"), ("H", "H", "H"), "10", "300", "NN", 100),
        ("kida", ("H2", "H"), ("H", "H", "H"), "10", "300", 3, 100), ("umist", ("H", "CRP"), ("H+", "e-"), "10", "300", "CP", 101),
    ]
    MIXED = [_mk(f, r, p, lo, hi, code, 301 + k) for k, (f, r, p, lo, hi, code, t) in enumerate(MIXED_DESC)]
    MIXED_POOLDESC = [(tuple(x for x in r if x != "CRP"), p, float(lo), float(hi), t) for f, r, p, lo, hi, code, t in MIXED_DESC]


def mixed_formats_default(sel: List[int]) -> bool:
    """
    pre: len(sel) <= 3
    pre: all(0 <= x < 8 for x in sel)
    post: _ == True
    """
    # reactions of one network read from different databases (sibling reaction classes): a repeat is a repeat whatever
    # format each occurrence came from (default mode; a KROME reaction carries no type and matches any)
    sel = prelude.concrete(sel)
    with prelude.NoTracing():
        n = Network()
        n.reaction_list = [MIXED[i] for i in sel]
        descs = [MIXED_POOLDESC[i] for i in sel]
        return _scan_matches(n, descs, None) and _scan_matches(n, descs, "brief")


def eq_laws(i: int, j: int) -> bool:
    """
    pre: 0 <= i < 17 and 0 <= j < 17
    post: _ == True
    """
    i, j = prelude.concrete(i), prelude.concrete(j)
    with prelude.NoTracing():
        a, b = POOL[i], POOL[j]
        same = _eqv(POOL_DESC[i], POOL_DESC[j], None)
        return (a == a) and ((a == b) == (b == a)) and ((a == b) == same) and (not (a == b) or hash(a) == hash(b))


def eq_transitive(i: int, j: int, k: int) -> bool:
    """
    pre: 0 <= i < 5 and 0 <= j < 5 and 0 <= k < 5
    post: _ == True
    """
    i, j, k = prelude.concrete(i), prelude.concrete(j), prelude.concrete(k)
    with prelude.NoTracing():
        a, b, c = POOL[i], POOL[j], POOL[k]
        return not (a == b and b == c) or (a == c)
