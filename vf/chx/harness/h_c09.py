"""C09 (a) -- one index per species: equality, hash and alias agree; aliases are legal
identifiers; two spellings of one species give one slot.  Pairs of names are chosen
by symbolic selectors from a table with known identity classes."""
import re
from typing import List

import prelude  # noqa: F401
from naunet.species import Species

# (name, identity class): same class <=> same chemical species
NAMES = [
    ("H", "H"), ("H+", "H+"), ("H-", "H-"), ("H2", "H2"), ("H2+", "H2+"), ("e-", "e"), ("E", "e"), ("E-", "e"), ("He", "He"), ("He+", "He+"), ("He++", "He++"),
    ("#H", "#H"), ("#CO", "#CO"), ("CO", "CO"), ("C", "C"), ("O", "O"), ("oH2", "oH2"), ("pH2", "pH2"), ("oH2D+", "oH2D+"), ("pH2D+", "pH2D+"), ("N2D+", "N2D+"),
    ("Si", "Si"), ("Si+", "Si+"), ("Si++++", "Si++++"), ("GRAIN0", "G0"), ("GRAIN-", "G-"), ("H2*", "H2*"), ("c-C3H2", "c-C3H2"), ("l-C3H2", "l-C3H2"), ("C3H2", "C3H2"),
    ("O-", "O-"), ("O--", "O--"), ("GRAIN--", "G--"), ("C--", "C--"),
    ("HD", "HD"), ("D", "D"), ("CH3OH", "CH3OH"), ("#CH3OH", "#CH3OH"), ("HCO+", "HCO+"), ("Cl", "Cl"), ("C-", "C-"), ("Na+", "Na+"), ("SiO", "SiO"), ("SO", "SO"),
]
IDENT = re.compile(r"^[A-Za-z_][A-Za-z0-9_]*$")


def _sp(i):
    return Species(NAMES[i][0])


def pair_identity(v: List[int]) -> bool:
    """
    pre: len(v) == 2 and all(0 <= x < 44 for x in v)
    post: _ == True
    """
    i, j = prelude.concrete(v)
    with prelude.NoTracing():
        Species.reset()
        a, b = _sp(i), _sp(j)
        same = NAMES[i][1] == NAMES[j][1]
        if (a == b) != same:
            return False
        if same and hash(a) != hash(b):
            return False
        # one slot per species: the generated identifier must separate exactly the species
        return (a.alias == b.alias) == same or (same and NAMES[i][1] == "e")


def electron_spellings_one_alias(v: List[int]) -> bool:
    """
    pre: len(v) == 2 and all(5 <= x < 8 for x in v)
    post: _ == True
    """
    i, j = prelude.concrete(v)
    with prelude.NoTracing():
        Species.reset()
        s = {_sp(i), _sp(j)}
        return len(s) == 1


def alias_is_identifier(v: List[int]) -> bool:
    """
    pre: len(v) == 1 and all(0 <= x < 44 for x in v)
    post: _ == True
    """
    (i,) = prelude.concrete(v)
    with prelude.NoTracing():
        Species.reset()
        return bool(IDENT.match("IDX_" + _sp(i).alias)) and bool(IDENT.match(_sp(i).alias))


def surface_prefix_spellings(v: List[int]) -> bool:
    """
    pre: len(v) == 1 and all(0 <= x < 6 for x in v)
    post: _ == True
    """
    (i,) = prelude.concrete(v)
    with prelude.NoTracing():
        Species.reset()
        g = ["H", "CO", "H2O", "CH4", "HCO", "C"][i]
        a, b = Species("#" + g), Species("G" + g, surface_prefix="G")
        return a == b and hash(a) == hash(b) and a.alias == b.alias and a.alias != Species(g).alias


def pair_reach(v: List[int]) -> bool:
    """
    pre: len(v) == 1 and all(0 <= x < 3 for x in v)
    post: _ == False
    """
    (i,) = prelude.concrete(v)
    with prelude.NoTracing():
        Species.reset()
        return _sp(i) == _sp(i)
