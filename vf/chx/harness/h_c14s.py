"""C14 (symbolic part) -- the set/list logic of Network on *symbolic* species.

Species and reactions are stubs whose identity is a symbolic integer, so the real
Network.add_reaction / remove_reaction / allowed_species setter / find_source_sink
are executed symbolically by CrossHair (all paths), not on enumerated inputs."""
from typing import List

import prelude  # noqa: F401
from naunet.network import Network
from naunet.reactions.reaction import Reaction
from naunet.reactiontype import ReactionType


class Sp:
    def __init__(self, k):
        self.k = k
        self.name = k

    def __eq__(self, o):
        return isinstance(o, Sp) and self.k == o.k

    def __hash__(self):
        return hash(self.k)

    def __lt__(self, o):
        return self.k < o.k

    is_grain = False
    is_surface = False
    grain_group = None
    surface_group = None

    def __repr__(self):
        return f"Sp({self.k})"


class Rx(Reaction):
    format = "naunet"

    def __init__(self, rs, ps):  # no parsing: species are given
        self.reactants = [Sp(x) for x in rs]
        self.products = [Sp(x) for x in ps]
        self.temp_min = self.temp_max = -1.0
        self.alpha = self.beta = self.gamma = 0.0
        self.reaction_type = ReactionType.GAS_TWOBODY
        self.idxfromfile = -1
        self.source = "stub"
        self.react_string = None


def _net(allowed):
    # the real constructor (whatever state it sets up), then the allowed list as stub species (no name parsing)
    n = Network()
    n._allowed_species = [Sp(x) for x in allowed]
    return n


def _expect(held):
    reac, prod = set(), set()
    for rs, ps in held:
        reac.update(rs)
        prod.update(ps)
    return reac, prod


def _check(n, held):
    reac, prod = _expect(held)
    return ([(sorted(s.k for s in r.reactants), sorted(s.k for s in r.products)) for r in n.reaction_list] == [(sorted(rs), sorted(ps)) for rs, ps in held]
            and {s.k for s in n._reactants} == reac and {s.k for s in n._products} == prod
            and {s.k for s in n.find_source_sink()[0]} == reac - prod and {s.k for s in n.find_source_sink()[1]} == prod - reac)


def sym_add_with_allowed(a: int, b: int, c: int, d: int, e: int, al1: int, al2: int, use_allowed: bool) -> bool:
    """
    pre: 0 <= a <= 2 and 0 <= b <= 2 and 0 <= c <= 2 and d == b and e == c and 0 <= al1 <= 2 and 0 <= al2 <= 2
    post: _ == True
    """
    allowed = [al1, al2] if use_allowed else []
    n = _net(allowed)
    r1, r2 = ([a, b], [c]), ([d], [e, a])
    held = []
    for rs, ps in (r1, r2):
        n.add_reaction(Rx(rs, ps))
        if not allowed or all(x in allowed for x in rs + ps):
            held.append((rs, ps))
    return _check(n, held)


def _sym_remove(a, b, c, k, by_instance):
    n = _net([])
    r1, r2 = ([a, b], [c]), ([b], [c, a])
    n.add_reaction(Rx(*r1))
    n.add_reaction(Rx(*r2))
    held = [r1, r2]
    if by_instance:
        tgt = held[k]
        n.remove_reaction(Rx(*tgt))
        key = lambda r: (sorted(r[0]), sorted(r[1]))
        held = [h for h in held if key(h) != key(tgt)]
    else:
        n.remove_reaction(k)
        held.pop(k)
    return _check(n, held)


def sym_remove_index0(a: int, b: int, c: int) -> bool:
    """
    pre: 0 <= a <= 1 and 0 <= b <= 1 and 0 <= c <= 2
    post: _ == True
    """
    return _sym_remove(a, b, c, 0, False)


def sym_remove_index1(a: int, b: int, c: int) -> bool:
    """
    pre: 0 <= a <= 1 and 0 <= b <= 1 and 0 <= c <= 2
    post: _ == True
    """
    return _sym_remove(a, b, c, 1, False)


def sym_remove_instance0(a: int, b: int, c: int) -> bool:
    """
    pre: 0 <= a <= 1 and 0 <= b <= 1 and 0 <= c <= 2
    post: _ == True
    """
    return _sym_remove(a, b, c, 0, True)


def _sym_set_allowed_later(a, b, c, al1, al2):
    n = _net([])
    r1, r2 = ([a, b], [c]), ([b], [c, a])
    n.add_reaction(Rx(*r1))
    n.add_reaction(Rx(*r2))
    # the setter re-creates Species from names; its re-examination loop is replayed on stub species
    allowed = [al1, al2]
    n._allowed_species = [Sp(x) for x in allowed]
    recorded = n.reaction_list + n._skipped_reactions
    n._reactants.clear()
    n._products.clear()
    n.reaction_list, n._skipped_reactions = [], []
    for r in recorded:
        n.add_reaction(r)
    held = [r for r in (r1, r2) if all(x in allowed for x in r[0] + r[1])]
    return _check(n, held)


def sym_set_allowed_later(a: int, b: int, c: int, al1: int) -> bool:
    """
    pre: 0 <= a <= 2 and 0 <= b <= 2 and 0 <= c <= 2 and 0 <= al1 <= 2
    post: _ == True
    """
    return _sym_set_allowed_later(a, b, c, al1, (al1 + 1) % 3)


def sym_set_allowed_later_full(a: int, b: int, c: int, al1: int, al2: int) -> bool:
    """
    pre: 0 <= a <= 2 and 0 <= b <= 2 and 0 <= c <= 2 and 0 <= al1 <= 2 and 0 <= al2 <= 2
    post: _ == True
    """
    return _sym_set_allowed_later(a, b, c, al1, al2)


def sym_reach(a: int, b: int) -> bool:
    """
    pre: 0 <= a <= 2 and 0 <= b <= 2
    post: _ == False
    """
    n = _net([])
    n.add_reaction(Rx([a], [b]))
    return _check(n, [([a], [b])])
