"""C14 -- network contents stay consistent under any history of edits.

Operation sequences are symbolic integer triples; the solver enumerates every
sequence within the bound, the real Network then runs untraced and is compared
with an explicit model of what it must hold."""
import os
import tempfile
from typing import List, Tuple

import prelude  # noqa: F401
from naunet.network import Network
from naunet.reactions.reaction import Reaction
from naunet.reactiontype import ReactionType
from naunet.species import Species

with prelude.NoTracing():
    DESC = [
        (("H", "H"), ("H2",), 100),
        (("H2", "CR"), ("H", "H"), 101),
        (("H", "C"), ("CH",), 100),
        (("CH", "O"), ("CO", "H"), 100),
        (("CO",), ("C", "O"), 100),
        (("H", "H"), ("H2",), 100),  # duplicate of 0
        (("e-", "H+"), ("H",), 100),
    ]
    ALLOWED = [[], ["H", "H2", "C", "CH"], ["H", "H2", "e-", "H+"], ["H", "H2", "C", "CH", "O", "CO", "e-", "H+"], ["C", "O", "CO"]]
    REQUIRED = [[], ["He"], ["H2", "N"], ["O"], ["CO", "O"]]

    def mk(i):
        r, p, t = DESC[i]
        return Reaction(list(r), list(p), reaction_type=ReactionType(t), alpha=1.0 + i)

    PSEUDO = {"CR"}

    def spec_of(i):
        r, p, _ = DESC[i]
        return [x for x in r + p if x not in PSEUDO]

    def same(i, j):
        a, b = DESC[i], DESC[j]
        f = lambda t: sorted(x for x in t if x not in PSEUDO)
        return f(a[0]) == f(b[0]) and f(a[1]) == f(b[1]) and a[2] == b[2]

    def key_of(reac):
        return (sorted(s.name for s in reac.reactants), sorted(s.name for s in reac.products), int(reac.reaction_type))

    def key_desc(i):
        r, p, t = DESC[i]
        f = lambda tt: sorted(x for x in tt if x not in PSEUDO)
        return (f(r), f(p), t)


class Model:
    def __init__(self, allowed=None, required=None):
        self.held, self.skipped = [], []
        self.allowed = list(allowed or [])
        self.required = list(required or [])

    def add(self, i):
        if self.allowed and not all(s in self.allowed for s in spec_of(i)):
            self.skipped.append(i)
        else:
            self.held.append(i)

    def species(self):
        s = set(self.required)
        for i in self.held:
            s.update(spec_of(i))
        return s


def _apply(net, model, op, a, b, tmpdir):
    """one operation on the real network and on the model; returns False on a disagreement in raising"""
    n = len(DESC)
    if op == 0:
        net.add_reaction(mk(a % n))
        model.add(a % n)
    elif op == 1:
        net.add_reaction((f"{mk(a % n):naunet}", "naunet"))
        model.add(a % n)
    elif op == 2:
        k = a % 4
        if k < len(model.held):
            net.remove_reaction(k)
            model.held.pop(k)
    elif op == 3:
        net.remove_reaction(mk(a % n))
        model.held = [h for h in model.held if not same(h, a % n)]
    elif op == 4:
        ks = [a % 4, b % 4]
        net.remove_reaction(ks)
        model.held = [h for k, h in enumerate(model.held) if k not in ks]
    elif op == 5:
        net.remove_reaction([mk(a % n), mk(b % n)])
        model.held = [h for h in model.held if not (same(h, a % n) or same(h, b % n))]
    elif op == 6:
        al = ALLOWED[a % len(ALLOWED)]
        net.allowed_species = al
        rec = model.held + model.skipped
        model.held, model.skipped, model.allowed = [], [], list(al)
        for r in rec:
            model.add(r)
    elif op == 7:
        rq = REQUIRED[a % len(REQUIRED)]
        net.required_species = rq
        model.required = list(rq)
    elif op == 8:
        _, idx, _ = net.find_duplicate_reaction()
        net.remove_reaction(idx)
        keep = []
        for h in model.held:
            if not any(same(h, k) for k in keep):
                keep.append(h)
        model.held = keep
    elif op == 9:
        net.reindex()
    elif op == 10:
        path = os.path.join(tmpdir, "add.naunet")
        with open(path, "w") as fh:
            fh.write(f"{mk(a % n):naunet}\n\n{mk(b % n):naunet}\n")
        net.add_reaction_from_file(path, "naunet")
        model.add(a % n)
        model.add(b % n)


def _consistent(net, model):
    held = [key_of(r) for r in net.reaction_list]
    if held != [key_desc(i) for i in model.held]:
        return False
    if {s.name for s in net.species} != model.species():
        return False
    reac = set()
    prod = set()
    for i in model.held:
        r, p, _ = DESC[i]
        reac.update(x for x in r if x not in PSEUDO)
        prod.update(x for x in p if x not in PSEUDO)
    if {s.name for s in net.reactants} != reac or {s.name for s in net.products} != prod:
        return False
    src, snk = net.find_source_sink()
    if {s.name for s in src} != reac - prod or {s.name for s in snk} != prod - reac:
        return False
    return True


def _run(ops, check_each=True):
    ops = prelude.concrete(ops)
    with prelude.NoTracing():
        Species.reset()
        tmp = None
        try:
            if any(op == 10 for op, _, _ in ops):
                tmp = tempfile.mkdtemp(prefix="naunet-verif-c14-")
            net, model = Network(), Model()
            for op, a, b in ops:
                _apply(net, model, op, a, b, tmp)
                if check_each and not _consistent(net, model):
                    return False
            return _consistent(net, model)
        finally:
            if tmp:
                import shutil

                shutil.rmtree(tmp, ignore_errors=True)


def _one_step(op, v):
    # arbitrary pre-state: up to two held reactions (selector 7 = none) and an allowed list, then one operation
    a, p1, p2 = prelude.concrete(v)
    pre1, pre2, pre3 = p1, (0, 3, 7, 7, 5, 7, 2)[p2], p2 % 3
    pre_ops = [(6, pre3, 0)] + [(0, p, 0) for p in (pre1, pre2) if p < 7]
    # extra species declared through the setter *after* the reactions are held -- some of them take part in held
    # reactions at that moment (the operation under test may remove those reactions), some lie outside an active allowed
    # list (being declared extra does not make a species allowed: reactions mentioning it stay skipped)
    pre_ops.append((7, (a + p1 + p2) % len(REQUIRED), 0))
    return _run(pre_ops + [(op, a, (a + 3) % 7)])


def _allowed_later(sel, al):
    sel, al = prelude.concrete(sel), prelude.concrete(al)
    with prelude.NoTracing():
        Species.reset()
        a = Network()
        for i in sel:
            a.add_reaction(mk(i))
        a.allowed_species = ALLOWED[al]
        b = Network([mk(i) for i in sel], allowed_species=ALLOWED[al]) if sel else Network(allowed_species=ALLOWED[al])
        ka = sorted(map(str, (key_of(r) for r in a.reaction_list)))
        kb = sorted(map(str, (key_of(r) for r in b.reaction_list)))
        return ka == kb and {s.name for s in a.species} == {s.name for s in b.species}


def step_add_instance(v: List[int]) -> bool:
    """
    pre: len(v) == 3 and all(0 <= x < 7 for x in v)
    post: _ == True
    """
    return _one_step(0, v)


def step_add_string(v: List[int]) -> bool:
    """
    pre: len(v) == 3 and all(0 <= x < 7 for x in v)
    post: _ == True
    """
    return _one_step(1, v)


def step_remove_index(v: List[int]) -> bool:
    """
    pre: len(v) == 3 and all(0 <= x < 7 for x in v)
    post: _ == True
    """
    return _one_step(2, v)


def step_remove_instance(v: List[int]) -> bool:
    """
    pre: len(v) == 3 and all(0 <= x < 7 for x in v)
    post: _ == True
    """
    return _one_step(3, v)


def step_remove_index_list(v: List[int]) -> bool:
    """
    pre: len(v) == 3 and all(0 <= x < 7 for x in v)
    post: _ == True
    """
    return _one_step(4, v)


def step_remove_instance_list(v: List[int]) -> bool:
    """
    pre: len(v) == 3 and all(0 <= x < 7 for x in v)
    post: _ == True
    """
    return _one_step(5, v)


def step_set_allowed(v: List[int]) -> bool:
    """
    pre: len(v) == 3 and all(0 <= x < 7 for x in v)
    post: _ == True
    """
    return _one_step(6, v)


def step_set_required(v: List[int]) -> bool:
    """
    pre: len(v) == 3 and all(0 <= x < 7 for x in v)
    post: _ == True
    """
    return _one_step(7, v)


def step_remove_duplicates(v: List[int]) -> bool:
    """
    pre: len(v) == 3 and all(0 <= x < 7 for x in v)
    post: _ == True
    """
    return _one_step(8, v)


def step_reindex(v: List[int]) -> bool:
    """
    pre: len(v) == 3 and all(0 <= x < 7 for x in v)
    post: _ == True
    """
    return _one_step(9, v)


def step_add_from_file(v: List[int]) -> bool:
    """
    pre: len(v) == 3 and all(0 <= x < 7 for x in v)
    post: _ == True
    """
    return _one_step(10, v)


def history2(v: List[int]) -> bool:
    """
    pre: len(v) == 3 and all(0 <= x <= 10 for x in v)
    post: _ == True
    """
    o1, o2, a = prelude.concrete(v)
    a1, a2 = a % 7, (a * 3 + 2) % 7
    return _run([(o1, a1, (a1 + 3) % 7), (o2, a2, (a2 + 5) % 7)])


def history3_first_add_instance(v: List[int]) -> bool:
    """
    pre: len(v) == 3 and all(0 <= x <= 10 for x in v)
    post: _ == True
    """
    o2, o3, a = prelude.concrete(v)
    a1, a2, a3 = a % 7, (a * 3 + 2) % 7, (a * 5 + 1) % 7
    return _run([(0, a1, (a1 + 3) % 7), (o2, a2, (a2 + 5) % 7), (o3, a3, (a3 + 1) % 7)])


def history3_first_add_string(v: List[int]) -> bool:
    """
    pre: len(v) == 3 and all(0 <= x <= 10 for x in v)
    post: _ == True
    """
    o2, o3, a = prelude.concrete(v)
    a1, a2, a3 = a % 7, (a * 3 + 2) % 7, (a * 5 + 1) % 7
    return _run([(1, a1, (a1 + 3) % 7), (o2, a2, (a2 + 5) % 7), (o3, a3, (a3 + 1) % 7)])


def history3_first_remove_index(v: List[int]) -> bool:
    """
    pre: len(v) == 3 and all(0 <= x <= 10 for x in v)
    post: _ == True
    """
    o2, o3, a = prelude.concrete(v)
    a1, a2, a3 = a % 7, (a * 3 + 2) % 7, (a * 5 + 1) % 7
    return _run([(2, a1, (a1 + 3) % 7), (o2, a2, (a2 + 5) % 7), (o3, a3, (a3 + 1) % 7)])


def history3_first_remove_instance(v: List[int]) -> bool:
    """
    pre: len(v) == 3 and all(0 <= x <= 10 for x in v)
    post: _ == True
    """
    o2, o3, a = prelude.concrete(v)
    a1, a2, a3 = a % 7, (a * 3 + 2) % 7, (a * 5 + 1) % 7
    return _run([(3, a1, (a1 + 3) % 7), (o2, a2, (a2 + 5) % 7), (o3, a3, (a3 + 1) % 7)])


def history3_first_remove_index_list(v: List[int]) -> bool:
    """
    pre: len(v) == 3 and all(0 <= x <= 10 for x in v)
    post: _ == True
    """
    o2, o3, a = prelude.concrete(v)
    a1, a2, a3 = a % 7, (a * 3 + 2) % 7, (a * 5 + 1) % 7
    return _run([(4, a1, (a1 + 3) % 7), (o2, a2, (a2 + 5) % 7), (o3, a3, (a3 + 1) % 7)])


def history3_first_remove_instance_list(v: List[int]) -> bool:
    """
    pre: len(v) == 3 and all(0 <= x <= 10 for x in v)
    post: _ == True
    """
    o2, o3, a = prelude.concrete(v)
    a1, a2, a3 = a % 7, (a * 3 + 2) % 7, (a * 5 + 1) % 7
    return _run([(5, a1, (a1 + 3) % 7), (o2, a2, (a2 + 5) % 7), (o3, a3, (a3 + 1) % 7)])


def history3_first_set_allowed(v: List[int]) -> bool:
    """
    pre: len(v) == 3 and all(0 <= x <= 10 for x in v)
    post: _ == True
    """
    o2, o3, a = prelude.concrete(v)
    a1, a2, a3 = a % 7, (a * 3 + 2) % 7, (a * 5 + 1) % 7
    return _run([(6, a1, (a1 + 3) % 7), (o2, a2, (a2 + 5) % 7), (o3, a3, (a3 + 1) % 7)])


def history3_first_set_required(v: List[int]) -> bool:
    """
    pre: len(v) == 3 and all(0 <= x <= 10 for x in v)
    post: _ == True
    """
    o2, o3, a = prelude.concrete(v)
    a1, a2, a3 = a % 7, (a * 3 + 2) % 7, (a * 5 + 1) % 7
    return _run([(7, a1, (a1 + 3) % 7), (o2, a2, (a2 + 5) % 7), (o3, a3, (a3 + 1) % 7)])


def history3_first_remove_duplicates(v: List[int]) -> bool:
    """
    pre: len(v) == 3 and all(0 <= x <= 10 for x in v)
    post: _ == True
    """
    o2, o3, a = prelude.concrete(v)
    a1, a2, a3 = a % 7, (a * 3 + 2) % 7, (a * 5 + 1) % 7
    return _run([(8, a1, (a1 + 3) % 7), (o2, a2, (a2 + 5) % 7), (o3, a3, (a3 + 1) % 7)])


def history3_first_reindex(v: List[int]) -> bool:
    """
    pre: len(v) == 3 and all(0 <= x <= 10 for x in v)
    post: _ == True
    """
    o2, o3, a = prelude.concrete(v)
    a1, a2, a3 = a % 7, (a * 3 + 2) % 7, (a * 5 + 1) % 7
    return _run([(9, a1, (a1 + 3) % 7), (o2, a2, (a2 + 5) % 7), (o3, a3, (a3 + 1) % 7)])


def history3_first_add_from_file(v: List[int]) -> bool:
    """
    pre: len(v) == 3 and all(0 <= x <= 10 for x in v)
    post: _ == True
    """
    o2, o3, a = prelude.concrete(v)
    a1, a2, a3 = a % 7, (a * 3 + 2) % 7, (a * 5 + 1) % 7
    return _run([(10, a1, (a1 + 3) % 7), (o2, a2, (a2 + 5) % 7), (o3, a3, (a3 + 1) % 7)])


def allowed_later_equals_constructed(sel: List[int], al: int) -> bool:
    """
    pre: len(sel) <= 2 and all(0 <= x < 7 for x in sel)
    pre: 0 <= al < 5
    post: _ == True
    """
    return _allowed_later(sel, al)


def allowed_later_equals_constructed3(sel: List[int], al: int) -> bool:
    """
    pre: len(sel) == 3 and all(0 <= x < 7 for x in sel)
    pre: 0 <= al < 5
    post: _ == True
    """
    return _allowed_later(sel, al)


def history_reach(v: List[int]) -> bool:
    """
    pre: len(v) == 2 and all(0 <= x < 7 for x in v)
    post: _ == False
    """
    o1, a1 = prelude.concrete(v)
    return _run([(o1, a1, 0)])
