"""C08 -- species names are decomposed into the right elements, charge and phase.

(b) structured names: a composition is chosen by symbolic selectors, the name is
spelled from it, the real Species parses it (untraced) and must give back exactly
the composition.  (a) fully symbolic short strings against an independent
maximal-munch tokenizer (no regular expressions)."""
from typing import List

import copy

import prelude  # noqa: F401
from naunet.species import Species

ELEMS = ["e", "E", "H", "D", "He", "C", "N", "O", "F", "Na", "Mg", "Al", "Si", "P", "S", "Cl", "Ar", "Ca", "Fe", "Ni"]
PSEUDO = ["CR", "CRP", "XRAY", "Photon", "PHOTON", "CRPHOT", "X", "M", "p", "o", "m", "c-", "l-", r"\*", "g"]
MASSNUM = {"H": 1, "D": 2, "He": 4, "C": 12, "N": 14, "O": 16, "F": 19, "Na": 23, "Mg": 24, "Al": 27, "Si": 28, "P": 31, "S": 32, "Cl": 35, "Ar": 40, "Ca": 40, "Fe": 56, "Ni": 59}
REAL = [e for e in ELEMS if e not in ("e", "E")]
CLASH = ["H", "He", "C", "Cl", "Ca", "S", "Si", "N", "Na", "Ni", "O", "F", "Fe", "P"]
COUNTS = ["", "2", "3", "12"]
CHARGES = ["", "+", "++", "-", "--", "+++"]
LABELS = ["", "o", "p", "m"]
UCL = ["E", "H", "D", "HE", "C", "N", "O", "MG", "SI", "S", "CL"]
UCL_REPL = {"E": "e", "HE": "He", "MG": "Mg", "SI": "Si", "CL": "Cl"}
UCL_PSEUDO = ["CR", "CRP", "PHOTON", "CRPHOT"]


def _setup(elements=None, pseudo=None, repl=None):
    Species.reset()
    Species.set_known_elements(list(elements or ELEMS))
    Species.set_known_pseudoelements(list(pseudo or PSEUDO))
    Species._replacement = dict(repl or {})


def _expected(parts, charge):
    ec = {}
    for sym, cnt in parts:
        if sym:
            ec[sym] = ec.get(sym, 0) + (int(cnt) if cnt else 1)
    q = charge.count("+") - charge.count("-")
    return ec, q


def _copy_reads_alike(sp):
    """a copy of a species (what the patch renderers work on) reads the name exactly as the original did; a copy
    that is refused with an error (renamed upper-case names are re-parsed against the user's list) is not a mis-read"""
    try:
        c = copy.copy(sp)
    except Exception:
        return True
    return _same_reading(c, sp)


def _same_reading(a, b):
    return (dict(a.element_count) == dict(b.element_count) and a.charge == b.charge and bool(a.is_surface) == bool(b.is_surface) and bool(a.is_grain) == bool(b.is_grain)
            and a.name == b.name and a.basename == b.basename and a.gasname == b.gasname and bool(a.is_atom) == bool(b.is_atom) and a.alias == b.alias and a == b)


def _agree(sp, ec, q, surface, gas):
    if not _copy_reads_alike(sp):
        return False
    if dict(sp.element_count) != ec or sp.charge != q:
        return False
    if bool(sp.is_surface) != surface:
        return False
    if surface and sp.gasname != gas:
        return False
    mn = sum(MASSNUM[s] * c for s, c in ec.items() if s in MASSNUM)
    if all(s in MASSNUM for s in ec) and sp.massnumber != mn:
        return False
    atom = len(ec) == 1 and sum(ec.values()) == 1 and q == 0 and not surface
    return bool(sp.is_atom) == atom


def pairs_clash_counts_charges(v: List[int]) -> bool:
    """
    pre: len(v) == 3 and all(0 <= x < 14 for x in v)
    post: _ == True
    """
    a, b, c = prelude.concrete(v)
    with prelude.NoTracing():
        _setup()
        s1, s2 = CLASH[a], (CLASH + [""])[b if b < 13 else 14]
        c1, ch = COUNTS[c % 4], CHARGES[(c // 4) % 4]
        c2 = COUNTS[(c + 1) % 4] if s2 else ""
        name = f"{s1}{c1}{s2}{c2}{ch}"
        ec, q = _expected([(s1, c1), (s2, c2)], ch)
        return _agree(Species(name), ec, q, False, name)


def single_element_count_charge(v: List[int]) -> bool:
    """
    pre: len(v) == 2 and all(0 <= x < 18 for x in v)
    post: _ == True
    """
    a, c = prelude.concrete(v)
    with prelude.NoTracing():
        _setup()
        s1, c1, ch = REAL[a], COUNTS[c % 4], CHARGES[(c // 3) % 6]
        name = f"{s1}{c1}{ch}"
        ec, q = _expected([(s1, c1)], ch)
        return _agree(Species(name), ec, q, False, name)


def prefix_label_default(v: List[int]) -> bool:
    """
    pre: len(v) == 3 and all(0 <= x < 12 for x in v)
    post: _ == True
    """
    a, b, c = prelude.concrete(v)
    with prelude.NoTracing():
        _setup()
        pref, use_g = [("", False), ("#", False), ("G", True)][a % 3]
        lab = LABELS[(a // 3) % 4]
        s1, c1, ch = REAL[b], COUNTS[c % 4], CHARGES[(c // 4) % 3]
        s2 = ["", "H", "O", "D"][(b + c) % 4]
        core = f"{lab}{s1}{c1}{s2}"
        name = f"{pref}{core}{ch}"
        ec, q = _expected([(s1, c1), (s2, "")], ch)
        sp = Species(name, surface_prefix="G") if use_g else Species(name)
        return _agree(sp, ec, q, bool(pref), f"{core}{ch}")


def isomer_labels_with_inner_dash(v: List[int]) -> bool:
    """
    pre: len(v) == 3 and all(0 <= x < 12 for x in v)
    post: _ == True
    """
    # 'c-' / 'l-' are default pseudo-elements: their '-' is part of the label, never a charge
    a, b, c = prelude.concrete(v)
    with prelude.NoTracing():
        _setup()
        pref, use_g = [("", False), ("#", False), ("G", True)][a % 3]
        lab = ["c-", "l-"][(a // 3) % 2]
        s1, c1 = ["C", "Si", "H", "N", "O", "S"][b % 6], COUNTS[c % 4]
        s2 = ["", "H", "H2", "N"][(b // 6 + 2 * (a // 6)) % 4]
        ch = CHARGES[(c // 4) * 2 + (a // 6) % 2]
        core = f"{lab}{s1}{c1}{s2}"
        name = f"{pref}{core}{ch}"
        p2 = (s2[:1], s2[1:]) if s2 else ("", "")
        ec, q = _expected([(s1, c1), p2], ch)
        sp = Species(name, surface_prefix="G") if use_g else Species(name)
        return _agree(sp, ec, q, bool(pref), f"{core}{ch}")


def triples_clash(v: List[int]) -> bool:
    """
    pre: len(v) == 3 and all(0 <= x < 14 for x in v)
    post: _ == True
    """
    a, b, c = prelude.concrete(v)
    with prelude.NoTracing():
        _setup()
        name = f"{CLASH[a]}{CLASH[b]}{CLASH[c]}"
        ec, q = _expected([(CLASH[a], ""), (CLASH[b], ""), (CLASH[c], "")], "")
        return _agree(Species(name), ec, q, False, name)


def uclchem_upper(v: List[int]) -> bool:
    """
    pre: len(v) == 3 and all(0 <= x < 11 for x in v)
    post: _ == True
    """
    a, b, c = prelude.concrete(v)
    with prelude.NoTracing():
        _setup(UCL, UCL_PSEUDO, UCL_REPL)
        real = [e for e in UCL if e != "E"]
        s1, s2 = real[a % 10], (real + [""])[b]
        c1, ch = COUNTS[c % 4], CHARGES[c % 3]
        pref = "#" if c >= 8 else ""
        name = f"{pref}{s1}{c1}{s2}{ch}"
        r = lambda s_: UCL_REPL.get(s_, s_)
        ec, q = _expected([(r(s1), c1), (r(s2), "")], ch)
        sp = Species(name)
        renamed = f"{pref}{r(s1)}{c1}{r(s2)}{ch}"
        return _agree(sp, ec, q, bool(pref), f"{r(s1)}{c1}{r(s2)}{ch}") and sp.name == renamed


def upper_case_replacement_negative_charges(v: List[int]) -> bool:
    """
    pre: len(v) == 3 and 0 <= v[0] < 11 and 0 <= v[1] < 11 and 0 <= v[2] < 8
    post: _ == True
    """
    # the replacement table rebuilds every name: anions keep their trailing signs (and stay different from the neutral)
    a, b, c = prelude.concrete(v)
    with prelude.NoTracing():
        _setup(UCL, UCL_PSEUDO, UCL_REPL)
        real = [e for e in UCL if e != "E"]
        s1, s2 = real[a % 10], (real + [""])[b]
        c1, ch = COUNTS[c % 4], ["-", "--"][(c // 4) % 2]
        pref = "#" if (a + b) % 3 == 0 else ""
        name = f"{pref}{s1}{c1}{s2}{ch}"
        r = lambda s_: UCL_REPL.get(s_, s_)
        ec, q = _expected([(r(s1), c1), (r(s2), "")], ch)
        sp = Species(name)
        renamed = f"{pref}{r(s1)}{c1}{r(s2)}{ch}"
        neutral = Species(f"{pref}{s1}{c1}{s2}")
        if a == 10:
            el = Species("E-")
            if not (bool(el.is_electron) and el.charge == -1 and el.name in ("e-", "E-")):
                return False
        return _agree(sp, ec, q, bool(pref), f"{r(s1)}{c1}{r(s2)}{ch}") and sp.name == renamed and sp != neutral and neutral.charge == 0


TRIT_ELEMS = ["e", "H", "D", "T", "He", "C", "N", "O"]
TRIT = [("T", {"T": 1}, 3), ("HT", {"H": 1, "T": 1}, 4), ("T2", {"T": 2}, 6), ("T2O", {"T": 2, "O": 1}, 22), ("CH3T", {"C": 1, "H": 3, "T": 1}, 18), ("DT", {"D": 1, "T": 1}, 5), ("HDO", {"H": 1, "D": 1, "O": 1}, 19), ("T3", {"T": 3}, 9)]


def isotopes_in_user_list(v: List[int]) -> bool:
    """
    pre: len(v) == 2 and 0 <= v[0] < 8 and 0 <= v[1] < 6
    post: _ == True
    """
    # both hydrogen isotopes of the isotope table in a user element list: each atom contributes its own nucleon number
    a, c = prelude.concrete(v)
    with prelude.NoTracing():
        _setup(TRIT_ELEMS, PSEUDO)
        name, ec, A = TRIT[a]
        ch = CHARGES[c]
        pref = "#" if (a + c) % 3 == 0 else ""
        sp = Species(f"{pref}{name}{ch}")
        q = ch.count("+") - ch.count("-")
        return dict(sp.element_count) == ec and sp.charge == q and sp.massnumber == A and bool(sp.is_surface) == bool(pref) and (bool(pref) or bool(sp.is_atom) == (sum(ec.values()) == 1 and q == 0))


def upper_case_elements_with_G_prefix(v: List[int]) -> bool:
    """
    pre: len(v) == 3 and all(0 <= x < 11 for x in v)
    post: _ == True
    """
    # the Leeds ice prefix 'G' together with an upper-case element list: 'MG' contains the prefix letter
    a, b, c = prelude.concrete(v)
    with prelude.NoTracing():
        _setup(UCL, UCL_PSEUDO + ["M"], UCL_REPL)
        real = [e for e in UCL if e != "E"]
        s1, s2 = real[a % 10], (real + [""])[b]
        c1, ch = COUNTS[c % 4], CHARGES[(c // 4) % 2]
        pref = "G" if (a + b + c) % 2 else ""
        name = f"{pref}{s1}{c1}{s2}{ch}"
        r = lambda s_: UCL_REPL.get(s_, s_)
        ec, q = _expected([(r(s1), c1), (r(s2), "")], ch)
        try:
            sp = Species(name, surface_prefix="G")
        except Exception:
            return False
        renamed = f"{pref}{r(s1)}{c1}{r(s2)}{ch}"
        return _agree(sp, ec, q, bool(pref), f"{r(s1)}{c1}{r(s2)}{ch}") and sp.name == renamed


def electrons_and_grains(v: List[int]) -> bool:
    """
    pre: len(v) == 2 and all(0 <= x < 12 for x in v)
    post: _ == True
    """
    a, b = prelude.concrete(v)
    with prelude.NoTracing():
        _setup()
        name = ["e-", "E", "E-", "e", "GRAIN0", "GRAIN-", "GRAIN+", "GRAIN", "H2*", "c-C3H2", "l-C3H", "oH2D+"][a]
        sp = Species(name)
        if a >= 8:
            ec = [{"H": 2}, {"C": 3, "H": 2}, {"C": 3, "H": 1}, {"H": 2, "D": 1}][a - 8]
            return dict(sp.element_count) == ec and sp.charge == (1 if a == 11 else 0)
        if a < 3:
            return bool(sp.is_electron) and sp.charge == -1 and not sp.is_atom and sp.massnumber == 0
        if a == 3:
            return True  # bare 'e' is not a documented spelling
        q = {"GRAIN0": 0, "GRAIN-": -1, "GRAIN+": 1, "GRAIN": 0}[name]
        return bool(sp.is_grain) and sp.charge == q and dict(sp.element_count) == {"GRAIN": 1}


GRAIN_SYMS = ["GRAIN", "DUST", "Gr"]
GROUPS = ["", "0", "1", "2", "3", "12"]
GCHARGES = ["", "+", "-", "--", "++", "+++"]


def grain_symbols_with_group_numbers(v: List[int]) -> bool:
    """
    pre: len(v) == 3 and all(0 <= x < 6 for x in v)
    post: _ == True
    """
    a, b, c = prelude.concrete(v)
    with prelude.NoTracing():
        _setup()
        sym, grp, ch = GRAIN_SYMS[a % 3], GROUPS[b], GCHARGES[c]
        name = f"{sym}{grp}{ch}"
        sp = Species(name, grain_symbol=sym) if sym != "GRAIN" else Species(name)
        q = ch.count("+") - ch.count("-")
        group = int(grp) if grp else 0
        # a grain is one particle whatever its group number: the number is a label (size bin), not a count
        return (_copy_reads_alike(sp) and bool(sp.is_grain) and sp.charge == q and dict(sp.element_count) == {sym: 1} and sp.grain_group == group and sp.n_atoms == 1
                and bool(sp.is_atom) == (q == 0) and not sp.is_surface and not sp.is_electron and sp.basename == f"{sym}{grp}")


SURF_MOLS = [("CO", {"C": 1, "O": 1}, 0), ("H2O", {"H": 2, "O": 1}, 0), ("CH3OH", {"C": 1, "H": 4, "O": 1}, 0), ("H", {"H": 1}, 0), ("C+", {"C": 1}, 1), ("Mg", {"Mg": 1}, 0), ("HCOOCH3", {"H": 4, "C": 2, "O": 2}, 0), ("O-", {"O": 1}, -1)]
SURF_GROUPS = ["", "1", "2", "12"]


def surface_prefix_with_group_number(v: List[int]) -> bool:
    """
    pre: len(v) == 3 and all(0 <= x < 8 for x in v)
    post: _ == True
    """
    # ice on the n-th grain population: '#2CO', 'G12CH3OH' -- the number between prefix and formula is a label
    a, b, c = prelude.concrete(v)
    with prelude.NoTracing():
        _setup()
        mol, ec, q = SURF_MOLS[a]
        grp = SURF_GROUPS[b % 4]
        pref = "#" if c % 2 == 0 else "G"
        name = f"{pref}{grp}{mol}"
        sp = Species(name) if pref == "#" else Species(name, surface_prefix="G")
        return _agree(sp, dict(ec), q, True, mol) and sp.surface_group == (int(grp) if grp else 0) and sp.name == name


ONLY_ELEMS = ["H", "C", "O", "M", "X", "g"]
ONLY_NAMES = [("MH", {"M": 1, "H": 1}, 0), ("M+", {"M": 1}, 1), ("XH2", {"X": 1, "H": 2}, 0), ("gC", {"g": 1, "C": 1}, 0), ("CO", {"C": 1, "O": 1}, 0), ("M", {"M": 1}, 0), ("Mg", {"M": 1, "g": 1}, 0), ("HX-", {"H": 1, "X": 1}, -1)]
ONLY_BAD = ["oH2", "pH2", "CRP", "H2*", "cC3H2", "mH", "PHOTON", "oM"]


def user_elements_with_empty_pseudo_list(v: List[int]) -> bool:
    """
    pre: len(v) == 2 and all(0 <= x < 8 for x in v)
    post: _ == True
    """
    # an element list given by the user with an explicitly empty pseudo-element list: nothing is a label or a pseudo
    # element, symbols named like the built-in ones (M, X, g) are ordinary elements, labelled names are rejected
    a, b = prelude.concrete(v)
    with prelude.NoTracing():
        Species.reset()
        Species.set_known_elements(list(ONLY_ELEMS))
        Species.set_known_pseudoelements([])
        name, ec, q = ONLY_NAMES[a]
        sp = Species(name)
        if dict(sp.element_count) != ec or sp.charge != q or bool(sp.is_atom) != (len(ec) == 1 and sum(ec.values()) == 1 and q == 0):
            return False
        if list(Species.known_pseudoelements()) != [] or list(Species.known_elements()) != ONLY_ELEMS:
            return False
        try:
            Species(ONLY_BAD[b])
        except Exception:
            return True
        return False


PROMOTE = [
    ("M", [("M", {"M": 1}, 0), ("MH2+", {"M": 1, "H": 2}, 1), ("#M2O", {"M": 2, "O": 1}, 0), ("Mg", {"Mg": 1}, 0)]),
    ("X", [("X", {"X": 1}, 0), ("XH", {"X": 1, "H": 1}, 0), ("HX-", {"H": 1, "X": 1}, -1), ("CO", {"C": 1, "O": 1}, 0)]),
    ("CR", [("CR", {"CR": 1}, 0), ("CRO2+", {"CR": 1, "O": 2}, 1), ("C", {"C": 1}, 0), ("HCR", {"H": 1, "CR": 1}, 0)]),
    ("g", [("gC", {"g": 1, "C": 1}, 0), ("g", {"g": 1}, 0), ("Hg+", {"H": 1, "g": 1}, 1), ("Mg", {"Mg": 1}, 0)]),
]


def pseudo_element_promoted_to_element(v: List[int]) -> bool:
    """
    pre: len(v) == 3 and 0 <= v[0] < 4 and 0 <= v[1] < 4 and 0 <= v[2] < 3
    post: _ == True
    """
    # add_known_elements on a symbol that the pseudo-element list holds: from then on the symbol is an element (it
    # counts in the composition) and no longer a pseudo element, whatever else is added in the same or a later call
    a, b, how = prelude.concrete(v)
    with prelude.NoTracing():
        _setup()
        sym, names = PROMOTE[a]
        elems0 = list(Species.known_elements())
        pseudo0 = list(Species.known_pseudoelements())
        if how == 0:
            Species.add_known_elements([sym])
        elif how == 1:
            Species.add_known_elements(["Zn", sym, "H"])
        else:
            Species.add_known_elements([sym])
            Species.add_known_elements([sym, "Zn"])
        elems, pseudo = list(Species.known_elements()), list(Species.known_pseudoelements())
        if elems.count(sym) != 1 or sym in pseudo:
            return False
        if [e for e in elems if e not in (sym, "Zn")] != elems0 or [p for p in pseudo0 if p != sym] != pseudo:
            return False
        name, ec, q = names[b]
        sp = Species(name)
        return dict(sp.element_count) == ec and sp.charge == q and bool(sp.is_surface) == name.startswith("#")


BAD = ["H2x", "Hx", "xH", "H?", "2H", "H2O!", "C_2", "h2", "He 2", "Q", "H2+o", "H.2", "H-2", "CO@", "Zz"]


def rejects_foreign_characters(v: List[int]) -> bool:
    """
    pre: len(v) == 1 and all(0 <= x < 15 for x in v)
    post: _ == True
    """
    (a,) = prelude.concrete(v)
    with prelude.NoTracing():
        _setup()
        try:
            Species(BAD[a])
        except Exception:
            return True
        return False


def names_reach(v: List[int]) -> bool:
    """
    pre: len(v) == 1 and all(0 <= x < 3 for x in v)
    post: _ == False
    """
    (a,) = prelude.concrete(v)
    with prelude.NoTracing():
        _setup()
        return Species(REAL[a]).is_atom


