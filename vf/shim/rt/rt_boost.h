// Native replay runtime for the odeint back-end: definitions of the uBLAS
// members the shim header only declares.
#ifndef VERIF_RT_BOOST_H
#define VERIF_RT_BOOST_H
#include <boost/numeric/odeint.hpp>
namespace boost { namespace numeric { namespace ublas {
static long verif_oob = 0;
static double verif_sink;
template <class T> zero_matrix<T>::zero_matrix(size_t a, size_t b) : n1_(a), n2_(b) {}
template <class T> vector<T>::vector() : n_(0), data_(0) {}
template <class T> vector<T>::vector(size_t n) : n_(n), data_(new T[n]()) {}
template <class T> vector<T>::vector(const vector &o) : n_(o.n_), data_(new T[o.n_]()) { for (size_t i = 0; i < n_; i++) data_[i] = o.data_[i]; }
template <class T> vector<T>::~vector() { delete[] data_; }
template <class T> T &vector<T>::operator[](size_t i) { if (i >= n_) { verif_oob++; return verif_sink; } return data_[i]; }
template <class T> const T &vector<T>::operator[](size_t i) const { if (i >= n_) { verif_oob++; return verif_sink; } return data_[i]; }
template <class T> T &vector<T>::operator()(size_t i) { return (*this)[i]; }
template <class T> const T &vector<T>::operator()(size_t i) const { return (*this)[i]; }
template <class T> size_t vector<T>::size() const { return n_; }
template <class T> matrix<T>::matrix() : n1_(0), n2_(0), data_(0) {}
template <class T> matrix<T>::matrix(size_t a, size_t b) : n1_(a), n2_(b), data_(new T[a * b]()) {}
template <class T> matrix<T>::~matrix() { delete[] data_; }
template <class T> matrix<T> &matrix<T>::operator=(const zero_matrix<T> &) { for (size_t i = 0; i < n1_ * n2_; i++) data_[i] = 0; return *this; }
template <class T> T &matrix<T>::operator()(size_t i, size_t j) { if (i >= n1_ || j >= n2_) { verif_oob++; return verif_sink; } return data_[i * n2_ + j]; }
template <class T> const T &matrix<T>::operator()(size_t i, size_t j) const { return data_[i * n2_ + j]; }
template <class T> size_t matrix<T>::size1() const { return n1_; }
template <class T> size_t matrix<T>::size2() const { return n2_; }
template class vector<double>;
template class matrix<double>;
template class zero_matrix<double>;
}}}
#endif
