// Native replay runtime for the cusparse kernel text: the kernels are compiled
// as ordinary C++ (one thread, one block) with trivial definitions of the CUDA
// runtime entry points the host wrappers reference.
#ifndef VERIF_RT_CUDA_H
#define VERIF_RT_CUDA_H
#include <math.h>
#include <stdlib.h>
#include <string.h>
double min(double a, double b) { return a < b ? a : b; }
double max(double a, double b) { return a > b ? a : b; }
int min(int a, int b) { return a < b ? a : b; }
int max(int a, int b) { return a > b ? a : b; }
extern "C" {
verif_dim3 blockIdx = {0, 0, 0}, threadIdx = {0, 0, 0}, blockDim = {1, 1, 1}, gridDim = {1, 1, 1};
static int verif_rowptrs[1 << 16], verif_colvals[1 << 20];
static long verif_oob = 0;
cudaError_t cudaMalloc(void **p, size_t n) { *p = malloc(n); return 0; }
cudaError_t cudaFree(void *p) { free(p); return 0; }
cudaError_t cudaMemcpyAsync(void *d, const void *s, size_t n, int, cudaStream_t) { memcpy(d, s, n); return 0; }
cudaError_t cudaDeviceSynchronize(void) { return 0; }
cudaError_t cudaGetLastError(void) { return 0; }
const char *cudaGetErrorName(cudaError_t) { return "none"; }
realtype *N_VGetDeviceArrayPointer_Cuda(N_Vector) { return 0; }
void N_VSpace_Cuda(N_Vector, sunindextype *a, sunindextype *b) { *a = 0; *b = 0; }
int SUNMatZero(SUNMatrix) { return 0; }
realtype *SUNMatrix_cuSparse_Data(SUNMatrix) { return 0; }
int SUNMatrix_cuSparse_NumBlocks(SUNMatrix) { return 1; }
}
#endif
