// Native replay runtime for the cvode back-ends: *definitions* for the handful
// of SUNDIALS entry points the generated Fex/Jac/renorm sources call, so that
// the real emitted translation units can be compiled with g++ and evaluated at
// a counterexample point.  Row-major dense storage; CSR arrays sized exactly.
#ifndef VERIF_RT_CVODE_H
#define VERIF_RT_CVODE_H
#include <sundials/sundials_types.h>
#include <stdlib.h>
#include <string.h>
struct _generic_N_Vector { double *data; long n; };
struct _generic_SUNMatrix { double *data; long nr, nc; sunindextype *rowptrs, *colvals; long nnz; };
extern "C" {
realtype *N_VGetArrayPointer(N_Vector v) { return v->data; }
int SUNMatZero(SUNMatrix A) { for (long i = 0; i < A->nr * A->nc; i++) A->data[i] = 0.0; return 0; }
static long verif_oob = 0;
static double verif_sink;
realtype *SHIM_SM_ELEMENT_D(SUNMatrix A, sunindextype i, sunindextype j) {
    if (i < 0 || j < 0 || i >= A->nr || j >= A->nc) { verif_oob++; return &verif_sink; }
    return &A->data[i * A->nc + j];
}
sunindextype *SUNSparseMatrix_IndexPointers(SUNMatrix A) { return A->rowptrs; }
sunindextype *SUNSparseMatrix_IndexValues(SUNMatrix A) { return A->colvals; }
realtype *SUNSparseMatrix_Data(SUNMatrix A) { return A->data; }
}
#endif
