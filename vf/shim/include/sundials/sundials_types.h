#ifndef SHIM_TYPES_H
#define SHIM_TYPES_H
#include <stdio.h>
#include <math.h>
typedef double realtype;
typedef long sunindextype;
struct _generic_N_Vector; typedef struct _generic_N_Vector *N_Vector;
struct _generic_SUNMatrix; typedef struct _generic_SUNMatrix *SUNMatrix;
struct _generic_SUNLinearSolver; typedef struct _generic_SUNLinearSolver *SUNLinearSolver;
struct _SUNContext; typedef struct _SUNContext *SUNContext;
extern "C" {
int SUNContext_Create(void*, SUNContext*);
int SUNContext_Free(SUNContext*);
N_Vector N_VNewEmpty_Serial(sunindextype, SUNContext);
N_Vector N_VNew_Serial(sunindextype, SUNContext);
N_Vector N_VMake_Serial(sunindextype, realtype*, SUNContext);
void N_VDestroy(N_Vector); void N_VConst(realtype, N_Vector);
realtype *N_VGetArrayPointer(N_Vector); void N_VSetArrayPointer(realtype*, N_Vector);
SUNMatrix SUNDenseMatrix(sunindextype, sunindextype, SUNContext);
SUNMatrix SUNSparseMatrix(sunindextype, sunindextype, sunindextype, int, SUNContext);
void SUNMatDestroy(SUNMatrix); int SUNMatZero(SUNMatrix);
realtype *SHIM_SM_ELEMENT_D(SUNMatrix, sunindextype, sunindextype);
#define SM_ELEMENT_D(A,i,j) (*SHIM_SM_ELEMENT_D(A,i,j))
#define CSC_MAT 0
#define CSR_MAT 1
sunindextype *SUNSparseMatrix_IndexPointers(SUNMatrix); sunindextype *SUNSparseMatrix_IndexValues(SUNMatrix); realtype *SUNSparseMatrix_Data(SUNMatrix);
SUNLinearSolver SUNLinSol_Dense(N_Vector, SUNMatrix, SUNContext);
SUNLinearSolver SUNLinSol_KLU(N_Vector, SUNMatrix, SUNContext);
int SUNLinSolFree(SUNLinearSolver); int SUNLinSolSetup(SUNLinearSolver, SUNMatrix); int SUNLinSolSolve(SUNLinearSolver, SUNMatrix, N_Vector, N_Vector, realtype);
#define CV_BDF 2
#define CV_NORMAL 1
typedef int (*CVRhsFn)(realtype, N_Vector, N_Vector, void*);
typedef int (*CVLsJacFn)(realtype, N_Vector, N_Vector, SUNMatrix, void*, N_Vector, N_Vector, N_Vector);
void *CVodeCreate(int, SUNContext); void CVodeFree(void**);
int CVodeSetErrFile(void*, FILE*); int CVodeSetMaxNumSteps(void*, long); int CVodeInit(void*, CVRhsFn, realtype, N_Vector);
int CVodeReInit(void*, realtype, N_Vector); int CVodeSStolerances(void*, realtype, realtype);
int CVodeSetLinearSolver(void*, SUNLinearSolver, SUNMatrix); int CVodeSetJacFn(void*, CVLsJacFn); int CVodeSetUserData(void*, void*);
int CVode(void*, realtype, N_Vector, realtype*, int);
int CVodeGetNumSteps(void*, long*); int CVodeGetNumRhsEvals(void*, long*); int CVodeGetNumLinSolvSetups(void*, long*); int CVodeGetNumErrTestFails(void*, long*);
int CVodeGetNumNonlinSolvIters(void*, long*); int CVodeGetNumNonlinSolvConvFails(void*, long*); int CVodeGetNumJacEvals(void*, long*); int CVodeGetNumGEvals(void*, long*);
}
#endif
