#include <pybind11/pybind11.h>
