// Declarations-only stand-in for the pybind11 API surface the generated naunet.h /
// naunet.cpp use under -DPYMODULE (verification shim).
#ifndef SHIM_PYBIND11_H
#define SHIM_PYBIND11_H
#include <stddef.h>
#include <stdexcept>
namespace pybind11 {
struct module_ {};
struct shape_t { shape_t(const shape_t &); ~shape_t(); };
struct buffer_info { void *ptr; shape_t shape; buffer_info(const buffer_info &); ~buffer_info(); };
template <class T> struct array_t {
    array_t(const array_t &);
    array_t(const shape_t &shape, const T *ptr);
    ~array_t();
    buffer_info request();
};
struct arg {
    arg(const char *);
    template <class T> arg &operator=(T &&);
};
struct init_tag {};
init_tag init();
template <class T> struct class_ {
    class_(module_ &, const char *);
    template <class... X> class_ &def(X &&...);
    template <class... X> class_ &def_readwrite(X &&...);
};
}  // namespace pybind11
#define PYBIND11_MODULE(name, var) static void verif_pybind11_module_##name(pybind11::module_ &var)
#endif
