// Declarations-only stand-in for the CUDA runtime / SUNDIALS-CUDA API surface
// used by the generated cusparse sources (verification shim, force-included).
#ifndef VERIF_CUDA_SHIM_H
#define VERIF_CUDA_SHIM_H
#include <stddef.h>
#include <algorithm>
#include <sundials/sundials_types.h>
#define __global__
#define __device__
#define __host__
#define __constant__
// CUDA device built-ins (declared only)
double min(double, double);
double max(double, double);
int min(int, int);
int max(int, int);
struct verif_dim3 { unsigned x, y, z; };
extern "C" { extern verif_dim3 blockIdx, threadIdx, blockDim, gridDim; }
typedef struct verif_cuda_stream *cudaStream_t;
typedef int cudaError_t;
#define cudaSuccess 0
#define cudaMemcpyHostToDevice 1
#define cudaMemcpyDeviceToHost 2
typedef struct verif_cusparse *cusparseHandle_t;
typedef struct verif_cusolver *cusolverSpHandle_t;
class SUNCudaExecPolicy {
  public:
    virtual size_t gridSize(size_t n = 0) const;
    virtual size_t blockSize(size_t n = 0) const;
    virtual const cudaStream_t *stream() const;
    virtual ~SUNCudaExecPolicy();
};
class SUNCudaThreadDirectExecPolicy : public SUNCudaExecPolicy {
  public:
    SUNCudaThreadDirectExecPolicy(size_t blockDim, cudaStream_t stream = 0);
};
class SUNCudaBlockReduceExecPolicy : public SUNCudaExecPolicy {
  public:
    SUNCudaBlockReduceExecPolicy(size_t blockDim, size_t gridDim = 0, cudaStream_t stream = 0);
};
struct _N_VectorContent_Cuda { SUNCudaExecPolicy *stream_exec_policy; SUNCudaExecPolicy *reduce_exec_policy; };
typedef struct _N_VectorContent_Cuda *N_VectorContent_Cuda;
struct _generic_N_Vector { void *content; };
struct _generic_SUNMatrix { void *content; };
extern "C" {
cudaError_t cudaMalloc(void **, size_t); cudaError_t cudaFree(void *);
cudaError_t cudaMallocHost(void **, size_t); cudaError_t cudaFreeHost(void *);
cudaError_t cudaMemcpyAsync(void *, const void *, size_t, int, cudaStream_t);
cudaError_t cudaDeviceSynchronize(void); cudaError_t cudaGetLastError(void); const char *cudaGetErrorName(cudaError_t);
cudaError_t cudaStreamCreate(cudaStream_t *); cudaError_t cudaStreamDestroy(cudaStream_t);
int cusparseCreate(cusparseHandle_t *); int cusparseDestroy(cusparseHandle_t); int cusparseSetStream(cusparseHandle_t, cudaStream_t);
int cusolverSpCreate(cusolverSpHandle_t *); int cusolverSpDestroy(cusolverSpHandle_t); int cusolverSpSetStream(cusolverSpHandle_t, cudaStream_t);
N_Vector N_VNew_Cuda(sunindextype, SUNContext); N_Vector N_VNewEmpty_Cuda(SUNContext);
void N_VFreeEmpty(N_Vector);
int N_VSetKernelExecPolicy_Cuda(N_Vector, SUNCudaExecPolicy *, SUNCudaExecPolicy *);
realtype *N_VGetDeviceArrayPointer_Cuda(N_Vector); realtype *N_VGetHostArrayPointer_Cuda(N_Vector);
void N_VSetHostArrayPointer_Cuda(realtype *, N_Vector);
void N_VCopyToDevice_Cuda(N_Vector); void N_VCopyFromDevice_Cuda(N_Vector);
void N_VSpace_Cuda(N_Vector, sunindextype *, sunindextype *);
SUNMatrix SUNMatrix_cuSparse_NewBlockCSR(int, int, int, int, cusparseHandle_t, SUNContext);
int SUNMatrix_cuSparse_SetFixedPattern(SUNMatrix, int);
int SUNMatrix_cuSparse_CopyToDevice(SUNMatrix, realtype *, int *, int *);
realtype *SUNMatrix_cuSparse_Data(SUNMatrix); int SUNMatrix_cuSparse_NumBlocks(SUNMatrix);
SUNLinearSolver SUNLinSol_cuSolverSp_batchQR(N_Vector, SUNMatrix, cusolverSpHandle_t, SUNContext);
void SUNLinSol_cuSolverSp_batchQR_GetDeviceSpace(SUNLinearSolver, size_t *, size_t *);
}
#endif
