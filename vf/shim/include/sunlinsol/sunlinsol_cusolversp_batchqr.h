#include <sundials/sundials_types.h>
