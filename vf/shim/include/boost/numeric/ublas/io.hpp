#include <boost/numeric/odeint.hpp>
