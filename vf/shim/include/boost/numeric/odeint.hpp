// Declarations-only stand-in for Boost.uBLAS / Boost.odeint (verification shim).
// Only the API surface the generated sources use is declared; nothing is defined,
// so every use lowers to an external call that the IR interpreter stubs.
#ifndef SHIM_BOOST_ODEINT_HPP
#define SHIM_BOOST_ODEINT_HPP
#include <stddef.h>
#include <stdio.h>
#include <stdexcept>
#include <utility>
namespace boost { namespace numeric { namespace ublas {
template <class T> class zero_matrix {
  public:
    zero_matrix(size_t, size_t);
  private:
    size_t n1_, n2_;
};
template <class T> class vector {
  public:
    vector();
    explicit vector(size_t n);
    vector(const vector &);
    ~vector();
    vector &operator=(const vector &);
    T &operator[](size_t i);
    const T &operator[](size_t i) const;
    T &operator()(size_t i);
    const T &operator()(size_t i) const;
    size_t size() const;
  private:
    size_t n_; T *data_;
};
template <class T> class matrix {
  public:
    matrix();
    matrix(size_t n1, size_t n2);
    matrix(const matrix &);
    ~matrix();
    matrix &operator=(const matrix &);
    matrix &operator=(const zero_matrix<T> &);
    T &operator()(size_t i, size_t j);
    const T &operator()(size_t i, size_t j) const;
    size_t size1() const;
    size_t size2() const;
  private:
    size_t n1_, n2_; T *data_;
};
template <class T> class permutation_matrix {
  public:
    explicit permutation_matrix(size_t n);
    ~permutation_matrix();
  private:
    size_t n_; T *data_;
};
template <class M, class PM> size_t lu_factorize(M &, PM &);
template <class M, class PM, class V> void lu_substitute(const M &, const PM &, V &);
}  // namespace ublas
namespace odeint {
template <class T> struct rosenbrock4 {};
template <class T> struct runge_kutta_dopri5 {};
template <class S> struct controlled_stepper { double atol, rtol; };
template <class S> controlled_stepper<S> make_controlled(double atol, double rtol);
template <class S> controlled_stepper<S> make_dense_output(double atol, double rtol);
template <class Stepper, class System, class State, class Time, class Obs>
size_t integrate_adaptive(Stepper stepper, System system, State &start_state,
                          Time start_time, Time end_time, Time dt, Obs observer);
template <class Stepper, class System, class State, class Time>
size_t integrate_const(Stepper stepper, System system, State &start_state,
                       Time start_time, Time end_time, Time dt);
// observer variants of the fixed-output-time drivers: the observer is called at the output times only
template <class Stepper, class System, class State, class Time, class Obs>
size_t integrate_const(Stepper stepper, System system, State &start_state,
                       Time start_time, Time end_time, Time dt, Obs observer);
template <class Stepper, class System, class State, class Time, class Obs>
Time integrate_n_steps(Stepper stepper, System system, State &start_state,
                       Time start_time, Time dt, size_t num_of_steps, Obs observer);
}  // namespace odeint
}}  // namespace boost::numeric
#endif
