"""Symbolic execution of Fex / Jac / EvalRates of a rendered project, per back-end."""
from __future__ import annotations

import os
import re
import time
from fractions import Fraction

import z3

from . import harness as H
from .irsym import Dual, Inconclusive, Ptr, R, State, is_sym, val_of

KIND = {"cvode_dense": "dense", "cvode_sparse": "sparse", "cvode_cusparse": "cusparse", "odeint_rosenbrock4": "odeint"}


class Run:
    """everything one symbolic run produced"""

    def __init__(self):
        self.notes = []  # harness-level observations (strings)
        self.oob = []
        self.events = []
        self.steps = 0
        self.merges = 0
        self.wall = 0.0
        self.calls = []


def _tus_for(kind, what):
    if kind == "odeint":
        return ["naunet_ode.cpp"]
    ext = ".cu" if kind == "cusparse" else ".cpp"
    return {"fex": ["naunet_fex" + ext], "jac": ["naunet_jac" + ext], "rates": ["naunet_rates" + ext]}[what]


def cuda_pre(text):
    """kernel-launch syntax -> plain call; the rest is handled by cuda shim macros"""
    return re.sub(r"<<<[^>]*>>>", "", text)


_LITRE = re.compile(r"(?<![\w.])(\d+\.\d*(?:[eE][+-]?\d+)?|\d+[eE][+-]?\d+|\.\d+(?:[eE][+-]?\d+)?)(?![\w.])")


def lift_literals(text, table):
    """Replace every floating literal of the emitted source by an `extern const double`
    whose exact value the interpreter knows: the compiler can then not constant-fold
    (and round) products of literals, so emitted and reference arithmetic are both exact."""
    out = []
    for line in text.split("\n"):
        st = line.lstrip()
        if st.startswith(("#", "//", "/*", "*")):
            out.append(line)
            continue

        def rep(m):
            lit = m.group(1)
            name = f"VLIT_{len(table)}"
            table[name] = lit
            return f"({name})"

        out.append(_LITRE.sub(rep, line))
    decl = "\n".join(f"extern const double {n};" for n in table)
    body = "\n".join(out)
    # declarations after the last #include
    idx = [m.end() for m in re.finditer(r"^#include[^\n]*\n", body, re.M)]
    pos = idx[-1] if idx else 0
    return body[:pos] + decl + "\n" + body[pos:]


def load_physics(project, tdir):
    """naunet_physics + naunet_constants of a target (the .cu variants for cusparse)"""
    kind = KIND[tdir]
    ext = ".cu" if kind == "cusparse" else ".cpp"
    tus = ["naunet_physics" + ext, "naunet_constants" + ext]
    if kind != "cusparse":
        return H.Loaded(project, tdir, tus=tus)
    paths, errors = [], {}
    for tu in tus:
        ll, err = project.compile_ir(tdir, tu, extra_flags=("-include", os.path.join(H_SHIM_CUDA)), pre=cuda_pre, tag="cu")
        if ll is None:
            errors[tu] = err
        else:
            paths.append(ll)
    L = H.Loaded(project, tdir, ir_paths=paths)
    L.errors = errors
    return L


def load(project, tdir, what, with_rates=False, with_physics=False, extra=(), lift=False):
    kind = KIND[tdir]
    tus = list(_tus_for(kind, what))
    if with_rates and kind != "odeint":
        tus += _tus_for(kind, "rates")
    if with_physics:
        tus += ["naunet_physics" + (".cu" if kind == "cusparse" else ".cpp"), "naunet_constants" + (".cu" if kind == "cusparse" else ".cpp")]
    tus += list(extra)
    if kind == "cusparse":
        paths, errors = [], {}
        for tu in tus:
            ll, err = project.compile_ir(tdir, tu, extra_flags=("-include", os.path.join(H_SHIM_CUDA)), pre=cuda_pre, tag="cu")
            if ll is None:
                errors[tu] = err
            else:
                paths.append(ll)
        L = H.Loaded(project, tdir, ir_paths=paths)
        L.errors = errors
    elif lift:
        paths, errors = [], {}
        main_tu = _tus_for(kind, what)[0]
        if not hasattr(project, "_lit"):
            project._lit = {}
        table = project._lit.setdefault((tdir, main_tu), {})
        fresh = not table
        for tu in tus:
            if tu == main_tu:
                ll, err = project.compile_ir(tdir, tu, pre=(lambda t: lift_literals(t, table)) if fresh else (lambda t: t), tag="lift")
                if ll is None:
                    # report the diagnostics of the *unmodified* emitted source
                    ll0, err0 = project.compile_ir(tdir, tu)
                    err = err0 if ll0 is None else "literal lifting broke the source: " + err
            else:
                ll, err = project.compile_ir(tdir, tu)
            if ll is None:
                errors[tu] = err
            else:
                paths.append(ll)
        L = H.Loaded(project, tdir, ir_paths=paths)
        L.errors = errors
        L.M.const_globals = {"@" + n: Fraction(float(v)) for n, v in table.items()}
        L.literals = table
    else:
        L = H.Loaded(project, tdir, tus=tus)
    L.kind = kind
    return L


H_SHIM_CUDA = os.path.join(os.path.dirname(os.path.abspath(__file__)), "shim", "include", "verif_cuda_shim.h")


def _sizes(project, tdir):
    m = project.macros(tdir)
    return m["NEQUATIONS"], m["NSPECIES"], m["NREACTIONS"], m.get("NHEATPROCS", 0), m.get("NCOOLPROCS", 0), m.get("NNZ", 0)


def _thermal_stubs(L, run):
    """GetMu/GetGamma/GetNumDens...: opaque unless physics is loaded"""
    for nm in ("GetMu", "GetGamma", "GetNumDens", "GetMantleDens", "GetMantleDensOfGroup", "GetHNuclei", "GetCharactWavelength", "GetShieldingFactor", "GetH2shielding", "GetCOshielding", "GetN2shielding", "GetH2shieldingInt", "GetCOshieldingInt", "GetCOshieldingInt1", "GetN2shieldingInt", "GetGrainScale"):
        if not L.has(rf"^{nm}\("):
            L.add_pattern_stub(rf"^{nm}\(", _opaque_of_args(nm))
    # any other physics helper that is not part of the loaded modules
    L.add_pattern_stub(r"^Get[A-Z]\w*\(", _opaque_generic)


_opaque_cache = {}


def _opaque_generic(M, st, a):
    scal = tuple(str(val_of(x)) for x in a if not isinstance(x, Ptr))
    key = ("Get*", len(a), scal)
    if key not in _opaque_cache:
        _opaque_cache[key] = z3.Real(f"opaque_helper!{len(_opaque_cache)}")
    return st, _opaque_cache[key]



def _opaque_of_args(nm):
    """opaque helper: an uninterpreted real per *call site argument pattern*.

    The helper's value may depend on y (e.g. GetNumDens), but it is the same
    value wherever it is called with the same arguments: model it as a constant
    per (name, scalar-args) -- array arguments are the state itself."""

    def f(M, st, a):
        scal = tuple(str(val_of(x)) for x in a if not isinstance(x, Ptr))
        # an array argument at a non-zero offset is another cell's state (cusparse, several systems): another value
        offs = tuple(x.off for x in a if isinstance(x, Ptr) and x.off)
        key = (nm, scal, offs)
        if key not in _opaque_cache:
            base = nm if not scal else f"{nm}({','.join(scal)})"
            _opaque_cache[key] = z3.Real(base if not offs else f"{base}@{'+'.join(map(str, offs))}")
        return st, _opaque_cache[key]

    return f


def _install_rates(L, st, run, rates, NR, NH, NC, ksyms):
    if rates == "havoc":
        L.add_pattern_stub(r"^EvalRates\(", H.havoc_rates(ksyms["k"], NR, "k", run.notes))
        L.add_pattern_stub(r"^EvalHeatingRates\(", H.havoc_rates(ksyms["kh"], NH, "kh", run.notes))
        L.add_pattern_stub(r"^EvalCoolingRates\(", H.havoc_rates(ksyms["kc"], NC, "kc", run.notes))
        # when the definitions are in the same module (odeint), stubs must win
        for rx in (r"^EvalRates\(", r"^EvalHeatingRates\(", r"^EvalCoolingRates\("):
            for n, d in list(L.dem.items()):
                if re.search(rx, d):
                    for prx, f in L.pattern_stubs:
                        if prx.pattern == rx:
                            L.M.stubs[n] = f


def _vec_stub(data_of):
    """ublas vector operator[] / operator(): address of element i"""

    def f(M, st, a):
        this, i = a[0], a[1]
        if is_sym(i):
            raise Inconclusive("symbolic vector index")
        obj = data_of.get(this.obj)
        if obj is None:
            raise Inconclusive(f"unknown vector object {this}")
        n = st.objsize(obj) // 8
        if not (0 <= i < n):
            M.oob.append((st.pathcond(), f"vector index {i} outside [0,{n}) of {obj}"))
            st.size["$oob"] = 1 << 20
            return st, Ptr("$oob", 0)
        return st, Ptr(obj, 8 * i)

    return f


def _mat_stub(dims):
    """SM_ELEMENT_D / ublas matrix(i,j): address of (i,j); rows/cols checked separately"""

    def f(M, st, a):
        this, i, j = a[0], a[1], a[2]
        if is_sym(i) or is_sym(j):
            raise Inconclusive("symbolic matrix index")
        d = dims.get(this.obj)
        if d is None:
            raise Inconclusive(f"unknown matrix object {this}")
        obj, nr, nc = d
        if not (0 <= i < nr and 0 <= j < nc):
            M.oob.append((st.pathcond(), f"matrix element ({i},{j}) outside {nr}x{nc}"))
            st.size["$oob"] = 1 << 20
            return st, Ptr("$oob", 0)
        return st, Ptr(obj, 8 * (i * nc + j))

    return f


def _mat_zero(dims, log):
    def f(M, st, a):
        d = dims.get(a[0].obj)
        if d is None:
            raise Inconclusive("zeroing unknown matrix")
        obj, nr, nc = d
        for c in range(nr * nc):
            st.store(obj, 8 * c, Fraction(0))
        log.append(("zero", obj))
        return st, (a[0] if len(a) > 1 else 0)

    return f


# --------------------------------------------------------------------------- Fex
def run_fex(project, tdir, rates="havoc", dual=False, nsystem=1, with_physics=False, data_overrides=None, second_call=False):
    """returns Run with .ydot (list len NEQ of terms or None), .y, .k, .kh, .kc, .data"""
    t0 = time.time()
    kind = KIND[tdir]
    NEQ, NS, NR, NH, NC, NNZ = _sizes(project, tdir)
    run = Run()
    L = load(project, tdir, "fex", with_rates=(rates == "exec"), with_physics=with_physics)
    if L.errors:
        run.compile_errors = L.errors
        return run
    run.compile_errors = {}
    M = L.M
    st = State()
    y = H.real_vec("y", NEQ * nsystem)
    yvals = [Dual(v, {i: Fraction(1)}) for i, v in enumerate(y)] if dual else y
    run.y = y
    run.k, run.kh, run.kc = H.real_vec("k", NR), H.real_vec("kh", NH), H.real_vec("kc", NC)
    ks = {"k": run.k, "kh": run.kh, "kc": run.kc}
    _install_rates(L, st, run, rates, NR, NH, NC, ks)
    if not with_physics:
        _thermal_stubs(L, run)
    ud, dsym = H.make_udata(L, st, overrides=data_overrides)
    run.data = dsym
    if kind in ("dense", "sparse"):
        H.make_array(st, "y.data", NEQ, yvals)
        H.make_array(st, "ydot.data", NEQ)
        st.size["u"] = 8
        st.size["udot"] = 8
        M.stubs["N_VGetArrayPointer"] = lambda M_, st_, a: (st_, Ptr({"u": "y.data", "udot": "ydot.data"}[a[0].obj], 0))
        fn = L.find(r"^Fex\(double, _generic_N_Vector\*")
        _, ret = M.run_function(fn, st, [z3.Real("t"), Ptr("u", 0), Ptr("udot", 0), ud])
        out = "ydot.data"
    elif kind == "odeint":
        H.make_array(st, "abund.data", NEQ, yvals)
        H.make_array(st, "ydot.data", NEQ)
        st.size["abund"] = 16
        st.size["ydotv"] = 16
        st.size["fexobj"] = 8
        st.mem["fexobj"] = {0: ud}
        vs = _vec_stub({"abund": "abund.data", "ydotv": "ydot.data"})
        L.add_pattern_stub(r"ublas::vector<double>::operator\[\]\(unsigned long\)", vs)
        L.add_pattern_stub(r"ublas::vector<double>::operator\(\)\(unsigned long\)", vs)
        fn = L.find(r"^Fex::operator\(\)\(")
        _, ret = M.run_function(fn, st, [Ptr("fexobj", 0), Ptr("abund", 0), Ptr("ydotv", 0), z3.Real("t")])
        out = "ydot.data"
    elif kind == "cusparse":
        H.make_array(st, "y.data", NEQ * nsystem, yvals)
        H.make_array(st, "ydot.data", NEQ * nsystem)
        # d_udata: array of nsystem structs (same symbolic fields per system index)
        usz = st.size["udata"]
        st.size["udata"] = usz * nsystem
        base = dict(st.mem["udata"])
        for s_ in range(1, nsystem):
            for off, v in base.items():
                st.mem["udata"][off + usz * s_] = z3.Real(f"{v}_{s_}") if is_sym(v) else v
        _cuda_globals(M, st, 0, 1, 1)
        fn = L.find(r"^FexKernel\(")
        _, ret = M.run_function(fn, st, [Ptr("y.data", 0), Ptr("ydot.data", 0), ud, nsystem])
        out = "ydot.data"
    else:
        raise Inconclusive(kind)
    if second_call:
        # the integrator calls the right-hand side many times: a second evaluation, in the state the first one left
        # (function-local statics, globals), with *other* abundances and a derivative buffer holding the old values
        cells = st.cells(out)
        run.first_ydot = [cells.get(8 * i) for i in range(NEQ * nsystem)]
        run.y2 = H.real_vec("ysecond", NEQ * nsystem)
        ybuf = "abund.data" if kind == "odeint" else "y.data"
        for i, v in enumerate(run.y2):
            st.store(ybuf, 8 * i, v)
        for i in range(NEQ * nsystem):
            st.store(out, 8 * i, z3.Real(f"stale_ydot_{i}"))
        args = {"dense": lambda: [z3.Real("t"), Ptr("u", 0), Ptr("udot", 0), ud], "sparse": lambda: [z3.Real("t"), Ptr("u", 0), Ptr("udot", 0), ud],
                "odeint": lambda: [Ptr("fexobj", 0), Ptr("abund", 0), Ptr("ydotv", 0), z3.Real("t")], "cusparse": lambda: [Ptr("y.data", 0), Ptr("ydot.data", 0), ud, nsystem]}[kind]()
        _, ret = M.run_function(fn, st, args)
    cells = st.cells(out)
    run.ydot = [cells.get(8 * i) for i in range(NEQ * nsystem)]
    run.ret = ret
    run.final = st
    _finish(run, M, st, t0)
    return run


def _cuda_globals(M, st, tid, bdim, gdim):
    for g, v in (("blockIdx", 0), ("threadIdx", tid), ("blockDim", bdim), ("gridDim", gdim)):
        st.mem["global:@" + g] = {0: v, 4: 0 if g.endswith("Idx") else 1, 8: 0 if g.endswith("Idx") else 1}


def _finish(run, M, st, t0):
    run.oob = list(M.oob)
    run.events = list(st.log)
    run.steps, run.merges = M.steps, M.merges
    run.calls = sorted(set(M.calls))
    run.wall = time.time() - t0


# --------------------------------------------------------------------------- Jac
def run_jac(project, tdir, rates="havoc", nsystem=1, with_physics=False, data_overrides=None, second_call=False):
    """returns Run with .J: dict (r,c)->term of *explicitly stored* entries,
    .zeroed (bool: dense/odeint matrix zeroed before the first entry store),
    for sparse kinds .rowptrs/.colvals/.data lists (None where never written)."""
    t0 = time.time()
    kind = KIND[tdir]
    NEQ, NS, NR, NH, NC, NNZ = _sizes(project, tdir)
    run = Run()
    L = load(project, tdir, "jac", with_rates=(rates == "exec"), with_physics=with_physics)
    if L.errors:
        run.compile_errors = L.errors
        return run
    run.compile_errors = {}
    M = L.M
    st = State()
    y = H.real_vec("y", NEQ * nsystem)
    run.y = y
    run.k, run.kh, run.kc = H.real_vec("k", NR), H.real_vec("kh", NH), H.real_vec("kc", NC)
    _install_rates(L, st, run, rates, NR, NH, NC, {"k": run.k, "kh": run.kh, "kc": run.kc})
    if not with_physics:
        _thermal_stubs(L, run)
    ud, dsym = H.make_udata(L, st, overrides=data_overrides)
    run.data = dsym
    zlog = []
    order = []  # sequence of ("zero",) / ("store", cell)
    if kind in ("dense", "odeint"):
        H.make_array(st, "jm.data", NEQ * NEQ)
        dims = {"jm": ("jm.data", NEQ, NEQ)}
        st.size["jm"] = 24
        M.store_hooks = {"jm.data": lambda st_, p, v: order.append(("store", p.off // 8))}
    if kind == "dense":
        H.make_array(st, "y.data", NEQ, y)
        st.size["u"] = 8
        M.stubs["N_VGetArrayPointer"] = lambda M_, st_, a: (st_, Ptr("y.data", 0))
        M.stubs["SHIM_SM_ELEMENT_D"] = _mat_stub(dims)
        z = _mat_zero(dims, order)
        M.stubs["SUNMatZero"] = lambda M_, st_, a: (z(M_, st_, a)[0], 0)
        fn = L.find(r"^Jac\(double, _generic_N_Vector\*")
        args = [z3.Real("t"), Ptr("u", 0), Ptr("fu", 0), Ptr("jm", 0), ud, Ptr("tmp1", 0), Ptr("tmp2", 0), Ptr("tmp3", 0)]
        _, ret = M.run_function(fn, st, args)
    elif kind == "odeint":
        H.make_array(st, "abund.data", NEQ, y)
        H.make_array(st, "dfdt.data", NEQ)
        st.size["abund"] = 16
        st.size["dfdt"] = 16
        st.size["jacobj"] = 8
        st.mem["jacobj"] = {0: ud}
        st.size["tref"] = 8
        st.mem["tref"] = {0: z3.Real("t")}
        vs = _vec_stub({"abund": "abund.data", "dfdt": "dfdt.data"})
        L.add_pattern_stub(r"ublas::vector<double>::operator\[\]\(unsigned long\)", vs)
        L.add_pattern_stub(r"ublas::matrix<double>::operator\(\)\(unsigned long, unsigned long\)", _mat_stub(dims))
        zm = {}

        def zero_ctor(M_, st_, a):
            zm[a[0].obj] = (a[1], a[2])
            return st_, None

        def assign_zero(M_, st_, a):
            d = zm.get(a[1].obj)
            if d != (NEQ, NEQ):
                M_.oob.append((st_.pathcond(), f"zero_matrix of shape {d} assigned to {NEQ}x{NEQ} Jacobian"))
            return _mat_zero(dims, order)(M_, st_, a)

        L.add_pattern_stub(r"ublas::zero_matrix<double>::zero_matrix\(", zero_ctor)
        L.add_pattern_stub(r"ublas::matrix<double>::operator=\(boost::numeric::ublas::zero_matrix<double> const&\)", assign_zero)
        fn = L.find(r"^Jac::operator\(\)\(")
        _, ret = M.run_function(fn, st, [Ptr("jacobj", 0), Ptr("abund", 0), Ptr("jm", 0), Ptr("tref", 0), Ptr("dfdt", 0)])
        dcells = st.cells("dfdt.data")
        run.dfdt = [dcells.get(8 * i) for i in range(NEQ)]
    elif kind == "sparse":
        H.make_array(st, "y.data", NEQ, y)
        st.size["u"] = 8
        H.make_array(st, "rowptrs", NEQ + 1)
        H.make_array(st, "colvals", NNZ)
        H.make_array(st, "data", NNZ)
        M.stubs["N_VGetArrayPointer"] = lambda M_, st_, a: (st_, Ptr("y.data", 0))
        M.stubs["SUNSparseMatrix_IndexPointers"] = lambda M_, st_, a: (st_, Ptr("rowptrs", 0))
        M.stubs["SUNSparseMatrix_IndexValues"] = lambda M_, st_, a: (st_, Ptr("colvals", 0))
        M.stubs["SUNSparseMatrix_Data"] = lambda M_, st_, a: (st_, Ptr("data", 0))
        fn = L.find(r"^Jac\(double, _generic_N_Vector\*")
        args = [z3.Real("t"), Ptr("u", 0), Ptr("fu", 0), Ptr("jm", 0), ud, Ptr("tmp1", 0), Ptr("tmp2", 0), Ptr("tmp3", 0)]
        _, ret = M.run_function(fn, st, args)
        if second_call:
            # CVODE clears the matrix before every evaluation; SUNMatZero of a sparse matrix zeroes the values, the
            # column indices and the row pointers.  The second evaluation runs in the state the first one left
            # (function-local statics, globals).
            w = 8
            rp, cv, dt = st.cells("rowptrs"), st.cells("colvals"), st.cells("data")
            run.first = {"rowptrs": [rp.get(w * i) for i in range(NEQ + 1)], "colvals": [cv.get(w * i) for i in range(NNZ)], "data": [dt.get(8 * i) for i in range(NNZ)]}
            for nm, n in (("rowptrs", NEQ + 1), ("colvals", NNZ)):
                for i in range(n):
                    st.store(nm, w * i, 0)
            for i in range(NNZ):
                st.store("data", 8 * i, Fraction(0))
            _, ret = M.run_function(fn, st, args)
    elif kind == "cusparse":
        H.make_array(st, "y.data", NEQ * nsystem, y)
        H.make_array(st, "data", NNZ * nsystem)
        usz = st.size["udata"]
        st.size["udata"] = usz * nsystem
        base = dict(st.mem["udata"])
        for s_ in range(1, nsystem):
            for off, v in base.items():
                st.mem["udata"][off + usz * s_] = z3.Real(f"{v}_{s_}") if is_sym(v) else v
        _cuda_globals(M, st, 0, 1, 1)
        # InitJac: rowptrs / colvals are local arrays handed to CopyToDevice
        got = {}

        def copy_to_device(M_, st_, a):
            for nm, ptr in (("rowptrs", a[2]), ("colvals", a[3])):
                size = st_.objsize(ptr.obj)
                got[nm] = (ptr, size - ptr.off)
                cells = {}
                for o in range(0, size - ptr.off, 4):
                    raw = st_.load(ptr.obj, ptr.off + o)
                    hasw = any(st_.load(ptr.obj, ("w", ptr.off + o - b)) for b in (0, 4))
                    cells[o] = M_.load(st_, Ptr(ptr.obj, ptr.off + o), "i32") if (raw is not None or hasw) else None
                got["rp_cells" if nm == "rowptrs" else "cv_cells"] = cells
            return st_, 0

        M.stubs["SUNMatrix_cuSparse_CopyToDevice"] = copy_to_device
        M.stubs["SUNMatZero"] = lambda M_, st_, a: (st_, 0)
        M.stubs["cudaDeviceSynchronize"] = lambda M_, st_, a: (st_, 0)
        fn = L.find(r"^InitJac\(")
        M.run_function(fn, st, [Ptr("jm", 0)])
        run.rowptr_size = got["rowptrs"][1] // 4 if got else None
        run.colval_size = got["colvals"][1] // 4 if got else None
        run.rowptrs = [got["rp_cells"].get(4 * i) for i in range(run.rowptr_size)] if got else None
        run.colvals = [got["cv_cells"].get(4 * i) for i in range(run.colval_size)] if got else None
        fn = L.find(r"^JacKernel\(")
        _, ret = M.run_function(fn, st, [Ptr("y.data", 0), Ptr("data", 0), ud, nsystem])
    else:
        raise Inconclusive(kind)

    run.J = {}
    if kind in ("dense", "odeint"):
        cells = st.cells("jm.data")
        stored = [c for tag, c in order if tag == "store"]
        zpos = [i for i, (tag, _) in enumerate(order) if tag == "zero"]
        fpos = [i for i, (tag, _) in enumerate(order) if tag == "store"]
        run.zeroed = bool(zpos) and (not fpos or zpos[0] < fpos[0]) and len(zpos) == 1
        run.store_count = len(stored)
        run.dup_stores = len(stored) - len(set(stored))
        for c in set(stored):
            run.J[(c // NEQ, c % NEQ)] = cells.get(8 * c)
        run.full = [[cells.get(8 * (r * NEQ + c)) for c in range(NEQ)] for r in range(NEQ)]
    elif kind == "sparse":
        w = 8  # sunindextype = long in the shim (int64 build of SUNDIALS)
        rp, cv, dt = st.cells("rowptrs"), st.cells("colvals"), st.cells("data")
        run.rowptrs = [rp.get(w * i) for i in range(NEQ + 1)]
        run.colvals = [cv.get(w * i) for i in range(NNZ)]
        run.data_vals = [dt.get(8 * i) for i in range(NNZ)]
    elif kind == "cusparse":
        dt = st.cells("data")
        run.data_vals = [dt.get(8 * i) for i in range(NNZ * nsystem)]
    run.ret = ret
    run.final = st
    _finish(run, M, st, t0)
    return run


def csr_lookup(run, NEQ):
    """dict (r,c)->term from CSR arrays (only if structurally valid enough to read)"""
    out = {}
    rp, cv, dv = run.rowptrs, run.colvals, run.data_vals
    if any(v is None or is_sym(v) for v in rp) or any(v is None or is_sym(v) for v in cv):
        return None
    for r in range(min(NEQ, len(rp) - 1)):
        for p in range(rp[r], rp[r + 1]):
            if 0 <= p < len(cv):
                out[(r, cv[p])] = dv[p] if p < len(dv) else None
    return out


# --------------------------------------------------------------------------- EvalRates
def run_rates(project, tdir, which="EvalRates", sentinel=True, with_physics=False, data_overrides=None, lifted=None, yvals=None):
    """k[i] after EvalRates; cells start as sentinel symbols kinit_i so the
    store guard is visible: k_i = ite(guard, expr, kinit_i)."""
    t0 = time.time()
    kind = KIND[tdir]
    NEQ, NS, NR, NH, NC, NNZ = _sizes(project, tdir)
    n = {"EvalRates": NR, "EvalHeatingRates": NH, "EvalCoolingRates": NC}[which]
    run = Run()
    if lifted is not None:
        L = lifted
    else:
        L = load(project, tdir, "rates", with_physics=with_physics)
    if L.errors:
        run.compile_errors = L.errors
        return run
    run.compile_errors = {}
    M = L.M
    st = State()
    y = yvals or H.real_vec("y", NEQ)
    run.y = y
    if not with_physics:
        _thermal_stubs(L, run)
    ud, dsym = H.make_udata(L, st, overrides=data_overrides)
    run.data = dsym
    run.kinit = H.real_vec("kinit", n)
    H.make_array(st, "k", n, run.kinit if sentinel else [Fraction(0)] * n)
    H.make_array(st, "y.data", NEQ, y)
    fn = L.find(rf"^{which}\(")
    _, ret = M.run_function(fn, st, [Ptr("k", 0), Ptr("y.data", 0), ud])
    cells = st.cells("k")
    run.kout = [cells.get(8 * i) for i in range(n)]
    run.ret = ret
    run.final = st
    run.L = L
    _finish(run, M, st, t0)
    return run
