"""Second-solver cross-check of a sample of the SMT queries (cvc5 against z3).

Every check that decides obligations with z3 hands a sample of its queries to
`XCheck.sample(solver, extra, verdict, label)`: the solver's current assertion
stack plus the extra assertions are printed as SMT-LIB2 (`Solver.to_smt2`) and
given to the cvc5 binary under a time limit.  A definite cvc5 verdict that
contradicts z3's definite verdict is a disagreement: the obligation cannot be
believed and the check ends with the harness-error exit code.  `unknown` /
timeout on either side is recorded as "no second verdict" (non-linear real
arithmetic with uninterpreted functions is incomplete in both solvers).
"""
from __future__ import annotations

import os
import shutil
import subprocess
import tempfile
import time

CVC5 = shutil.which("cvc5")

# uninterpreted libm functions are declared under their C names; under (set-logic ALL) several of these
# shadow cvc5's theory symbols and the declaration is a parse error: rename them on export
RESERVED = {"sqrt", "exp", "sin", "cos", "tan", "csc", "sec", "cot", "arcsin", "arccos", "arctan", "arccsc", "arcsec", "arccot", "pi", "abs", "pow", "log", "mod", "div",
            "to_real", "to_int", "is_int", "divisible", "iand", "pow2"}


def portable(txt):
    import re

    declared = set(re.findall(r"\(declare-fun\s+([^\s()|]+)", txt))
    for nm in declared & RESERVED:
        txt = re.sub(r"(?<=[\s(])" + re.escape(nm) + r"(?=[\s)])", "uf_" + nm, txt)
    return txt


class XCheck:
    def __init__(self, every=25, first=2, tlimit_ms=20_000, cap=40):
        self.every, self.first, self.tlimit, self.cap = every, first, tlimit_ms, cap
        self.seen = 0
        self.done = 0
        self.agree = 0
        self.noverdict = 0
        self.disagree = []
        self.time = 0.0

    def want(self):
        self.seen += 1
        if CVC5 is None or self.done >= self.cap:
            return False
        return self.seen <= self.first or self.seen % self.every == 0

    def sample(self, solver, extra, verdict, label):
        """call right after z3 answered `verdict` for solver + extra; never raises"""
        if verdict not in ("sat", "unsat") or not self.want():
            return
        try:
            # a copy: push/pop on the live solver would discard the model the caller still wants to read
            import z3

            s2 = z3.Solver()
            s2.add(solver.assertions())
            for e in extra:
                s2.add(e)
            txt = s2.to_smt2()
        except Exception:
            return
        self.run_text(txt, verdict, label)

    def run_text(self, txt, verdict, label):
        t0 = time.time()
        fd, fn = tempfile.mkstemp(suffix=".smt2", prefix="xcheck-")
        try:
            with os.fdopen(fd, "w") as fh:
                fh.write("(set-logic ALL)\n" + portable(txt))
            r = subprocess.run([CVC5, f"--tlimit={self.tlimit}", fn], capture_output=True, text=True, timeout=self.tlimit / 1000 + 30)
            out = (r.stdout.strip().splitlines() or [""])[0].strip()
            if "(error" in r.stdout or "(error" in r.stderr:
                out = "error"
        except Exception:
            out = "timeout"
        finally:
            try:
                os.unlink(fn)
            except OSError:
                pass
        self.time += time.time() - t0
        self.done += 1
        if out in ("sat", "unsat"):
            if out == verdict:
                self.agree += 1
            else:
                self.disagree.append({"obligation": label, "z3": verdict, "cvc5": out})
        else:
            self.noverdict += 1

    def merge(self, d):
        """fold the summary() of a worker process into this tally"""
        if not d:
            return
        self.done += d.get("queries", 0)
        self.agree += d.get("agree", 0)
        self.noverdict += d.get("no_second_verdict", 0)
        self.disagree += d.get("disagreements", [])
        self.time += d.get("cvc5_s", 0.0)

    def summary(self):
        return {"solver": "cvc5 " + (CVC5 or "(not found)"), "queries": self.done, "agree": self.agree, "no_second_verdict": self.noverdict, "disagreements": self.disagree, "cvc5_s": round(self.time, 2)}
