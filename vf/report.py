"""Evidence, violations, known findings, exit codes (interface of the task)."""
from __future__ import annotations

import hashlib
import json
import os
import re
import sys
import time

HERE = os.path.dirname(os.path.abspath(__file__))
VERIF = os.path.dirname(HERE)
OUT = os.environ.get("VERIF_OUT", VERIF)
EXIT_OK, EXIT_VIOLATION, EXIT_HARNESS = 0, 1, 3

LEVELS = {
    "C01": "translation_validation", "C02": "translation_validation", "C03": "translation_validation",
    "C04": "translation_validation", "C05": "translation_validation", "C06": "translation_validation",
    "C07": "exploration", "C08": "exploration", "C09": "exploration", "C10": "other",
    "C11": "translation_validation", "C12": "translation_validation", "C13": "translation_validation",
    "C14": "exploration", "C15": "exploration", "C16": "translation_validation",
    "C18": "translation_validation", "C19": "model_checking", "C20": "translation_validation",
}


def load_known():
    p = os.path.join(VERIF, "known_findings.json")
    if not os.path.exists(p):
        return []
    return json.load(open(p)).get("findings", [])


def _jsonable(x):
    try:
        json.dumps(x)
        return x
    except TypeError:
        if isinstance(x, dict):
            return {str(k): _jsonable(v) for k, v in x.items()}
        if isinstance(x, (list, tuple, set)):
            return [_jsonable(v) for v in x]
        return str(x)


class Check:
    def __init__(self, pid, tier, seed=None):
        self.pid, self.tier = pid, tier
        self.seed = int(os.environ.get("VERIF_SEED", "0") or 0) if seed is None else seed
        self.t0 = time.time()
        self.obligations = 0
        self.discharged = 0
        self.inconclusive = []  # (name, reason)
        self.violations = []  # dict(key, what, replay)
        self.known_hit = []
        self.samples = []
        self.programs = 0
        self.replays_done = 0
        self.solver_s = 0.0
        self.functions = set()
        self.bounds = {}
        self.assumptions = []
        self.notes = []
        self.canaries = {"expected_sat": 0, "got_sat": 0}
        self.extra = {}
        self.harness_errors = []
        self.known = [k for k in load_known() if k.get("property") == pid]
        import shutil
        shutil.rmtree(os.path.join(OUT, "replays", pid), ignore_errors=True)
        self.nontrivial = set()
        from .xcheck import XCheck
        self.xc = XCheck()

    # -- bookkeeping
    def ok(self, name, n=1):
        self.obligations += n
        self.discharged += n

    def unknown(self, name, reason):
        self.obligations += 1
        self.inconclusive.append((name, str(reason)[:300]))

    def sample(self, s, limit=8):
        if len(self.samples) < limit:
            self.samples.append(_jsonable(s))

    def canary(self, got_sat):
        self.canaries["expected_sat"] += 1
        if got_sat:
            self.canaries["got_sat"] += 1
        else:
            self.harness_errors.append("canary mutation was not detected (vacuous encoding?)")

    def harness_error(self, msg):
        self.harness_errors.append(str(msg)[:1000])

    def violation(self, key, what, replay=None):
        """a *replayed* counterexample.  `key` identifies the failing input/site."""
        self.obligations += 1
        for k in self.known:
            if k.get("key") == key or (k.get("key_regex") and re.fullmatch(k["key_regex"], key)):
                if key not in [h[0] for h in self.known_hit]:
                    self.known_hit.append((key, k.get("what", what)))
                return "known"
        if key in [v["key"] for v in self.violations]:
            return "dup"
        path = None
        if replay is not None:
            d = os.path.join(OUT, "replays", self.pid)
            os.makedirs(d, exist_ok=True)
            h = hashlib.sha1(key.encode()).hexdigest()[:12]
            path = os.path.join(d, f"{h}.json")
            with open(path, "w") as fh:
                json.dump(_jsonable({"property": self.pid, "key": key, "what": what, **replay}), fh, indent=1)
        self.violations.append({"key": key, "what": what, "replay": path})
        return "new"

    # -- finish
    def finish(self, coverage_extra=None, rule=None, explanation=None):
        level = LEVELS[self.pid]
        wall = time.time() - self.t0
        cov = {
            "obligations": self.obligations,
            "discharged": self.discharged,
            "inconclusive": len(self.inconclusive),
            "inconclusive_samples": self.inconclusive[:10],
            "samples": self.samples or ["(no sample recorded)"],
            "programs": max(self.programs, 0),
            "disagreements_checked": self.replays_done,
            "evaluations": self.obligations,
            "distinct_nontrivial": len(self.nontrivial) if self.nontrivial else self.discharged,
            "rule": rule or "one obligation = one solver query (negated property) over symbolic inputs; distinct = distinct (project, entry) pairs",
            "functions_encoded": sorted(self.functions),
            "bounds": self.bounds,
            "solver_wall_s": round(self.solver_s, 2),
            "canaries": self.canaries,
            "known_findings_reproduced": [k for k, _ in self.known_hit],
            "notes": self.notes[:40],
            "repo_fingerprint": self.extra.pop("repo_fingerprint", None),
        }
        if explanation:
            cov["explanation"] = explanation
        if level == "model_checking":
            cov.setdefault("states", max(self.extra.pop("states", 1), 1))
            cov.setdefault("transitions", max(self.extra.pop("transitions", 1), 1))
            cov.setdefault("traces_validated_against_impl", self.replays_done)
        if self.xc.done or self.xc.disagree:
            cov["solver_crosscheck"] = self.xc.summary()
            for d in self.xc.disagree:
                self.inconclusive.append((d["obligation"], f"solvers disagree: z3 {d['z3']}, cvc5 {d['cvc5']}"))
                self.harness_errors.append(f"z3 and cvc5 disagree on {d['obligation']}: z3 {d['z3']}, cvc5 {d['cvc5']}")
            cov["inconclusive"] = len(self.inconclusive)
        cov.update(_jsonable(self.extra))
        if coverage_extra:
            cov.update(_jsonable(coverage_extra))
        ev = {
            "property_id": self.pid,
            "tier": self.tier,
            "seed": self.seed,
            "level": level,
            "coverage": cov,
            "assumptions": self.assumptions,
            "wall_s": round(wall, 2),
            "violations": len(self.violations),
        }
        os.makedirs(os.path.join(OUT, "evidence"), exist_ok=True)
        with open(os.path.join(OUT, "evidence", f"{self.pid}.json"), "w") as fh:
            json.dump(ev, fh, indent=1)
        for key, what in self.known_hit:
            print(f"KNOWN-FINDING: property={self.pid} {what} [{key}]")
        for v in self.violations:
            print(f"VIOLATION property={self.pid} replay={v['replay']}")
            print(f"  what: {v['what']}")
        print(f"[{self.pid} {self.tier}] obligations={self.obligations} discharged={self.discharged} inconclusive={len(self.inconclusive)} "
              f"violations={len(self.violations)} known={len(self.known_hit)} programs={self.programs} wall={wall:.1f}s solver={self.solver_s:.1f}s")
        for n, r in self.inconclusive[:5]:
            print(f"  inconclusive: {n}: {r}")
        if self.violations:
            return EXIT_VIOLATION
        if self.harness_errors:
            for e in self.harness_errors[:10]:
                print(f"HARNESS-ERROR: {e}", file=sys.stderr)
            return EXIT_HARNESS
        return EXIT_OK
