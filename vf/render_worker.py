"""Runs in a fresh subprocess: build a Network with the *real* naunet code from
/repo's working tree, render it for the requested back-ends, dump metadata.

usage: render_worker.py <spec.json> <workdir>
Writes <workdir>/meta.json ({"ok": true, ...} or {"ok": false, "error": ...}).
"""
import contextlib
import io
import json
import logging
import os
import sys
import traceback

os.environ["TQDM_DISABLE"] = "1"
logging.disable(logging.CRITICAL)


def species_meta(s):
    d = {
        "name": s.name,
        "alias": s.alias,
        "element_count": dict(s.element_count),
        "charge": s.charge,
        "is_electron": bool(s.is_electron),
        "is_surface": bool(s.is_surface),
        "is_grain": bool(s.is_grain),
        "is_atom": bool(s.is_atom),
    }
    for k in ("A", "massnumber", "basename", "gasname"):
        try:
            d[k] = getattr(s, k)
        except Exception as e:  # noqa
            d[k] = None
    return d


def reaction_meta(r):
    return {
        "reactants": [s.name for s in r.reactants],
        "products": [s.name for s in r.products],
        "alpha": r.alpha,
        "beta": r.beta,
        "gamma": r.gamma,
        "temp_min": r.temp_min,
        "temp_max": r.temp_max,
        "reaction_type": int(r.reaction_type) if r.reaction_type is not None else None,
        "idxfromfile": r.idxfromfile,
        "format": type(r).format,
        "cls": type(r).__name__,
        "source": getattr(r, "source", None),
        "react_string": getattr(r, "react_string", None),
        "extra": {k: getattr(r, k) for k in ("formula", "rtype", "code", "ucl_type") if hasattr(r, k) and isinstance(getattr(r, k), (int, str, float))},
    }


def main():
    spec = json.load(open(sys.argv[1]))
    work = sys.argv[2]
    os.makedirs(work, exist_ok=True)
    os.chdir(work)
    meta = {"ok": True, "targets": {}}
    out = io.StringIO()
    try:
        with contextlib.redirect_stdout(out), contextlib.redirect_stderr(out):
            from naunet.network import Network
            from naunet.reactions.reaction import Reaction
            from naunet.reactiontype import ReactionType
            from naunet.species import Species
            from naunet.templateloader import TemplateLoader
            from pathlib import Path

            for f in spec.get("files", []):
                with open(f["name"], "w") as fh:
                    fh.write(f["content"])
            kw = dict(spec.get("network", {}))
            if "rate_modifier" in kw and kw["rate_modifier"] is not None:
                kw["rate_modifier"] = {int(k): v for k, v in kw["rate_modifier"].items()}
            for pre in spec.get("pre", []):
                if pre["op"] == "update_binding_energy":
                    from naunet.chemistrydata import update_binding_energy
                    update_binding_energy(pre["table"])
                elif pre["op"] == "update_photon_yield":
                    from naunet.chemistrydata import update_photon_yield
                    update_photon_yield(pre["table"])
                elif pre["op"] == "exec":
                    exec(pre["code"], {})
            reactions = None
            if spec.get("reactions") is not None:
                if kw.get("elements") or kw.get("pseudo_elements"):
                    Species.set_known_elements(kw.get("elements") or [])
                    Species.set_known_pseudoelements(kw.get("pseudo_elements") or [])
                reactions = []
                skw = kw.get("species_kwargs") or {}
                for r in spec["reactions"]:
                    r = dict(r)
                    r["reaction_type"] = ReactionType(r.get("reaction_type", 999))
                    if skw:
                        r["reactants"] = [Species(x, **skw) for x in r.get("reactants", [])]
                        r["products"] = [Species(x, **skw) for x in r.get("products", [])]
                    reactions.append(Reaction(**r))
            if spec.get("reactions_empty_list"):
                net = Network(**kw)
            elif reactions is not None and reactions:
                net = Network(reactions, **kw)
            else:
                net = Network(**kw)
            for op in spec.get("ops", []):
                k = op["op"]
                if k == "write_read":
                    net.write(op["file"], op.get("format", "naunet"))
                    kw2 = {k2: v for k2, v in kw.items() if k2 not in ("filelist", "fileformats")}
                    net = Network(filelist=op["file"], fileformats=op.get("format", "naunet"), **kw2)
                elif k == "add_file":
                    net.add_reaction_from_file(op["file"], op["format"])
                elif k == "reindex":
                    net.reindex()
                elif k == "remove_duplicates":
                    d, idx, first = net.find_duplicate_reaction(op.get("mode"))
                    net.remove_reaction(idx)
                elif k == "export":
                    os.makedirs(op.get("prefix", "./"), exist_ok=True)
                    net.export(op["name"], solver=op.get("solver", "cvode"), method=op.get("method", "dense"), prefix=op.get("prefix", "./"), overwrite=True)
                elif k == "exec":
                    exec(op["code"], {"net": net, "Network": Network, "Reaction": Reaction, "ReactionType": ReactionType, "Species": Species})
            meta["reaction_list_before_render"] = [reaction_meta(r) for r in net.reaction_list]
            for tg in spec.get("targets", []):
                d = tg["dir"]
                try:
                    tl = TemplateLoader(tg["solver"], tg["method"], tg.get("device", "cpu"))
                    tl.render("naunet", net, path=Path(d), save=True, jac_pattern=bool(tg.get("jac_pattern")))
                    meta["targets"][d] = {"ok": True}
                except Exception as e:
                    meta["targets"][d] = {"ok": False, "error": f"{type(e).__name__}: {e}", "trace": traceback.format_exc()[-2000:]}
            sp = net.species
            meta["species"] = [species_meta(s) for s in sp]
            meta["elements"] = [species_meta(s) for s in net.elements]
            meta["reactions"] = [reaction_meta(r) for r in net.reaction_list]
            meta["n_render_reactions"] = len(net.reactions)
            meta["heating"] = [{"name": n, "reactants": [s.name for s in h.reactants], "temp_min": h.temp_min, "temp_max": h.temp_max} for n, h in zip(net._heating_names, net.heating)]
            meta["cooling"] = [{"name": n, "reactants": [s.name for s in c.reactants], "temp_min": c.temp_min, "temp_max": c.temp_max} for n, c in zip(net._cooling_names, net.cooling)]
            meta["rate_modifier"] = {str(k): v for k, v in net.rate_modifier.items()}
            meta["ode_modifier"] = net.ode_modifier
            meta["known_elements"] = list(Species.known_elements())
            meta["known_pseudoelements"] = list(Species.known_pseudoelements())
            try:
                grains = net.grains
                gd = {g.group: g for g in grains} if grains else {}
                meta["rateexpr"] = []
                for r in net.reaction_list:
                    try:
                        meta["rateexpr"].append(r.rateexpr(gd.get(r.grain_group)) if grains else r.rateexpr())
                    except Exception as e:
                        meta["rateexpr"].append(f"!{type(e).__name__}: {e}")
            except Exception as e:
                meta["rateexpr_error"] = str(e)
    except Exception as e:
        meta["ok"] = False
        meta["error"] = f"{type(e).__name__}: {e}"
        meta["trace"] = traceback.format_exc()[-3000:]
    meta["log"] = out.getvalue()[-2000:]
    with open("meta.json", "w") as fh:
        json.dump(meta, fh)


if __name__ == "__main__":
    main()
