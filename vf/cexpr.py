"""Tiny reader for the arithmetic C expressions users put into modifiers
(+ - * / parentheses, float literals, parameter names) -> z3 term, exact."""
from __future__ import annotations

import ast
import re
from fractions import Fraction

import z3

from .irsym import fadd, fdiv, fmul, fneg, fsub


def to_z3(text, names=None):
    names = names or {}
    tree = ast.parse(text.strip(), mode="eval")

    def go(n):
        if isinstance(n, ast.Expression):
            return go(n.body)
        if isinstance(n, ast.Constant) and isinstance(n.value, (int, float)):
            return Fraction(float(n.value)) if isinstance(n.value, float) else Fraction(n.value)
        if isinstance(n, ast.Name):
            return names.get(n.id, z3.Real(n.id))
        if isinstance(n, ast.UnaryOp) and isinstance(n.op, ast.USub):
            return fneg(go(n.operand))
        if isinstance(n, ast.UnaryOp) and isinstance(n.op, ast.UAdd):
            return go(n.operand)
        if isinstance(n, ast.BinOp):
            a, b = go(n.left), go(n.right)
            if isinstance(n.op, ast.Add):
                return fadd(a, b)
            if isinstance(n.op, ast.Sub):
                return fsub(a, b)
            if isinstance(n.op, ast.Mult):
                return fmul(a, b)
            if isinstance(n.op, ast.Div):
                return fdiv(a, b)
        raise ValueError(f"unsupported modifier expression: {text!r}")

    return go(tree)
