"""Where the code under analysis lives.

Registered commands always analyse /repo's working tree.  VERIF_REPO / VERIF_OUT exist only so that
seeded changes (scratch worktrees outside /repo) can be tried in parallel without touching /repo or
the committed evidence: `VERIF_REPO=/tmp/wt VERIF_OUT=/tmp/out ./run C05 quick`.
"""
import os

REPO = os.environ.get("VERIF_REPO", "/repo").rstrip("/")
VERIF = os.path.dirname(os.path.dirname(os.path.abspath(__file__)))
OUT = os.environ.get("VERIF_OUT", VERIF)


def child_env(env):
    """environment for subprocesses that import naunet: /repo via the overlay .pth, or VERIF_REPO"""
    env.pop("PYTHONPATH", None)
    if os.environ.get("VERIF_REPO"):
        env["PYTHONPATH"] = REPO
    return env
