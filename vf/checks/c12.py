"""C12 -- KROME rate expressions keep their value when translated from Fortran to C.

The real translator (regex pre-pass + Lark grammars in naunet/reactions) turns
each Fortran expression into C text; that text is compiled (clang, exact
literals) and executed symbolically, and compared by z3 with the term an
independent Fortran-semantics reader produces for the *input* text."""
from __future__ import annotations

from ..paths import child_env
import json
import itertools
import os
import random
import re
import subprocess
import time
from fractions import Fraction

import z3

from .. import harness as H, proj
from ..evalz3 import EvalError, evalf
from ..irsym import Inconclusive, Machine, Ptr, R, State, fadd, fdiv, fmul, fneg, fsub, inv_axioms, is_sym
from ..ode import lift_literals
from ..report import Check

SPECIES = {"H": "HI", "D": "DI", "H2": "H2I", "Hp": "HII", "Hm": "HM", "E": "eM", "HE": "HeI",
           # further one-letter atoms and their ions (the charge suffixes p / m are letters that are element symbols too)
           "C": "CI", "Cp": "CII", "O": "OI", "Om": "OM", "P": "PI", "Pp": "PII", "Pm": "PM", "S": "SI", "N": "NI"}  # KROME idx name -> naunet alias of that species
SLOT = {a: i for i, a in enumerate(["HI", "DI", "H2I", "HII", "HM", "eM", "HeI", "CI", "CII", "OI", "OM", "PI", "PII", "PM", "SI", "NI"])}
USER = ["user_a", "user_crflux"]
ARRAYS = []  # user arrays indexed by a species index: user_tab(idx_X)
DERIVED = ["Te", "lnTe", "T32", "invT", "invTe", "sqrTgas"]


# --------------------------------------------------------------------------- Fortran semantics reader
class FortranError(Exception):
    pass


class NotFortran(FortranError):
    """the text is not an expression of the language at all (stray token): nothing it could mean"""


TOK = re.compile(r"\s*(\d+\.?\d*(?:[dDeE][+-]?\d+)?|\.\d+(?:[dDeE][+-]?\d+)?|\*\*|[A-Za-z_][A-Za-z_0-9]*|[-+*/(),:])")


def ftokens(s):
    pos, out = 0, []
    s = s.strip()
    while pos < len(s):
        m = TOK.match(s, pos)
        if not m:
            raise FortranError(f"cannot tokenise at {s[pos:pos + 10]!r}")
        out.append(m.group(1))
        pos = m.end()
    return out


def fortran_term(text, env):
    """-> (value, is_integer); value is Fraction or z3 term"""
    # fixed-form source ignores blanks: '1.5 e-3' is the literal 1.5e-3
    text = re.sub(r"(\d\.?\d*|\.\d+)\s+([dDeE])\s*([+-]?)\s*(\d+)", r"\1\2\3\4", text)
    toks = ftokens(text)
    i = [0]

    def peek():
        return toks[i[0]] if i[0] < len(toks) else None

    def eat(t=None):
        x = peek()
        if t is not None and x != t:
            raise FortranError(f"expected {t!r}, got {x!r}")
        i[0] += 1
        return x

    def expr():
        v = term()
        while peek() in ("+", "-"):
            op = eat()
            w = term()
            v = arith(op, v, w)
        return v

    def term():
        v = factor()
        while peek() in ("*", "/"):
            op = eat()
            w = factor()
            v = arith(op, v, w)
        return v

    def factor():
        if peek() == "-":
            eat()
            v, isint = factor()
            return (fneg(v) if not isinstance(v, Fraction) else -v), isint
        if peek() == "+":
            eat()
            return factor()
        return power()

    def power():
        b = primary()
        if peek() == "**":
            eat()
            e = factor()  # right associative, binds tighter than unary minus on its left
            return powf(b, e)
        return b

    def primary():
        t = eat()
        if t is None:
            raise FortranError("unexpected end")
        if t == "(":
            v = expr()
            eat(")")
            return v
        if re.match(r"^(\d|\.\d)", t):
            if re.match(r"^\d+$", t):
                return Fraction(int(t)), True
            return Fraction(float(re.sub(r"[dD]", "e", t))), False
        if re.match(r"^[A-Za-z_]", t):
            if peek() == "(":
                eat("(")
                if t == "n" or t in env.get("arrays", {}):
                    nm = eat()
                    eat(")")
                    if not nm.startswith("idx_") or nm[4:] not in SPECIES:
                        raise FortranError(f"unknown abundance reference {nm}")
                    if t == "n":
                        return env["y"][SLOT[SPECIES[nm[4:]]]], False
                    return env["arrays"][t][SLOT[SPECIES[nm[4:]]]], False  # element of a user array
                args = [expr()]
                while peek() == ",":
                    eat()
                    args.append(expr())
                eat(")")
                return call(t, args)
            if t in env["vars"]:
                return env["vars"][t], False
            raise FortranError(f"unknown variable {t}")
        raise FortranError(f"unexpected token {t!r}")

    def arith(op, a, b):
        (x, xi), (y, yi) = a, b
        both = xi and yi
        if op == "+":
            return fadd(x, y), both
        if op == "-":
            return fsub(x, y), both
        if op == "*":
            return fmul(x, y), both
        if both:
            if y == 0:
                raise FortranError("integer division by zero")
            q = abs(x) // abs(y)
            return Fraction(q if (x < 0) == (y < 0) else -q), True
        return fdiv(x, y), False

    def powf(a, b):
        (x, xi), (y, yi) = a, b
        if xi and yi:
            if y >= 0:
                return Fraction(x) ** int(y), True
            # integer ** negative integer: read as real arithmetic (what rate files intend;
            # the standard's truncating integer result is outside the claim)
            if x == 0:
                raise FortranError("0 ** negative")
            return Fraction(x) ** int(y), False
        return H.UF2("pow", x, y), False

    def call(name, args):
        name = name.lower()
        vals = [a for a, _ in args]
        if name in ("exp", "dexp"):
            return H.UF1("exp", vals[0]), False
        if name in ("sqrt", "dsqrt"):
            return H.UF1("sqrt", vals[0]), False
        if name in ("log", "dlog"):
            return H.UF1("log", vals[0]), False
        if name in ("log10", "dlog10"):
            return H.UF1("log10", vals[0]), False
        # generic intrinsics that have the same name and meaning in C's libm
        if name in SAME_NAME_INTRINSICS:
            return H.UF1(name, vals[0]), False
        raise FortranError(f"intrinsic {name} not modelled")

    v = expr()
    if peek() is not None:
        raise NotFortran(f"trailing {peek()!r}")
    return v


def reference_env(T, users, y):
    Te = fmul(T, Fraction(float("8.617343e-5")))
    vars_ = {"Tgas": T, "Te": Te, "lnTe": H.UF1("log", Te), "T32": fdiv(T, Fraction(300)), "invT": fdiv(Fraction(1), T), "invTe": fdiv(Fraction(1), Te), "sqrTgas": H.UF1("sqrt", T)}
    vars_.update(users)
    vars_["Hnuclei"] = z3.Real("nH")  # KROME's total hydrogen nuclei is naunet's nH parameter
    return {"vars": vars_, "y": y}


# --------------------------------------------------------------------------- expression corpus
LITS = ["2", "3", "2.5", "1d-9", "3.e0", "1.5e3", "0.5d0"]
VARS = ["Tgas", "T32", "invT", "lnTe", "user_a", "sqrTgas", "invTe"]
FUNCS = ["exp", "sqrt", "log"]
SAME_NAME_INTRINSICS = ("sin", "cos", "tan", "asin", "acos", "atan", "sinh", "cosh", "tanh", "asinh", "acosh", "atanh")
REFS = ["n(idx_H)", "n(idx_D)"]


def gen_exprs(n, seed, depth=3):
    rnd = random.Random(seed)

    def atom():
        r = rnd.random()
        if r < 0.3:
            return rnd.choice(LITS)
        if r < 0.8:
            return rnd.choice(VARS)
        return rnd.choice(REFS)

    def g(d):
        if d == 0:
            return atom()
        r = rnd.random()
        if r < 0.22:
            return f"{g(d - 1)}**{g0pow(d - 1)}"
        if r < 0.34:
            return f"{rnd.choice(FUNCS)}({g(d - 1)})"
        if r < 0.46:
            return f"({g(d - 1)})"
        if r < 0.5:
            return f"-{atom()}" if d == depth else f"(-{g(d - 1)})"
        op = rnd.choice(["+", "-", "*", "/", "*", "+", "/", "-"])
        right = g(d - 1)
        if op in "/-" and rnd.random() < 0.5 and not right.startswith("("):
            right = f"({g(d - 1)}{rnd.choice('/-*+')}{atom()})"  # grouped right operand: a/(b/c), a-(b-c)
        return f"{g(d - 1)}{op}{right}"

    def g0pow(d):
        r = rnd.random()
        if r < 0.5:
            return rnd.choice(["2", "3", "0.5", "(-0.5)", "(-2)", "2.5d0"])
        if r < 0.7:
            return f"({g(d)})"
        return atom()

    out, seen = [], set()
    # systematic shapes first
    base = ["Tgas**2**3", "2**3**2", "T32**invT**2", "-Tgas**2", "-Tgas**0.5d0", "2*-3.0", "Tgas**-0.5", "1d-9*T32**(-0.5)*exp(-3.0d2*invT)", "3/2*Tgas", "Tgas**(1/2)", "Tgas**(1d0/2d0)",
            "1.2d-10/(Tgas/3.d2)", "user_a/(n(idx_H)/user_crflux)", "Tgas/(T32/2.d0/user_a)", "2.d0*(Tgas/3.d0)", "Tgas-(T32-invT)", "Tgas/(T32*invT)", "Tgas-(T32+invT)", "user_a*Tgas/(sqrTgas/invTe/2.d0)",
            "(Tgas/3.d2)**(-0.5d0)", "Tgas/(user_a)", "Tgas/(2.d0)/(3.d0)", "exp(-(Tgas/1.d2))", "sqrt((Tgas/1.d2))/(T32/(invT/2.d0))", "n(idx_H)*2.5d-10", "n(idx_H2)*1d-9", "n(idx_Hp)*1d-9", "n(idx_Hm)*1d-9", "n(idx_E)*1d-9", "n(idx_HE)*1d-9", "exp(-32.71396786d0+13.5365560d0*lnTe-5.73932875d0*(lnTe**2))",
            "1.4d-18*Tgas**0.928d0*exp(-Tgas/16200.)", "dexp(-4.4d0*lnTe)", "3.92d-13*invTe**0.6353d0", "(T32)**(-0.5)", "2.5d0**Tgas", "sqrt(Tgas)*sqrTgas", "user_a*user_crflux/1.3d-17", "1.d0/Tgas", "2.e-10", ".5d0*Tgas", "Tgas-2", "Tgas -2", "Tgas+-2",
            # trigonometric / hyperbolic intrinsics and their inverses (same names in Fortran and C)
            "2.1d-10*atan(Tgas/1.d3)", "asin(invT)", "acos(T32/(1.d0+T32))", "sinh(lnTe)*1d-12", "tanh(Tgas/1d4)", "cos(Tgas/1.d2)+sin(Tgas/1.d2)", "atanh(invT/2.d0)", "1d-9*tan(invT)", "asinh(T32)", "acosh(1.d0+T32)", "cosh(invTe)",
            "dsqrt(Tgas)", "dlog10(Tgas)*1d-10", "dlog(Tgas)",
            # user arrays indexed by a species index keep their name (only n(idx_X) is the abundance vector)
            "1d-9*user_tab(idx_H)/n(idx_H)", "user_dens(idx_D)+n(idx_D)", "Tgas**user_xi(idx_H)", "user_tab(idx_Hp)*2.0d0", "exp(-user_dens(idx_H)/Tgas)*n(idx_H)", "user_xi(idx_Hm)/user_tab(idx_D)",
            # one-letter species whose symbol is also a charge suffix (P / p) or sits next to one
            "n(idx_P)*1d-9", "n(idx_Pp)*1d-9", "n(idx_Pm)*1d-9", "1.0d-9*n(idx_P)/(n(idx_P)+n(idx_H))", "n(idx_C)*n(idx_Cp)", "n(idx_O)+n(idx_Om)", "n(idx_S)*2.d0", "n(idx_N)/Tgas", "3.6D-12*n(idx_P)",
            # a rate that is one bare literal, with more significant digits than a short float format keeps
            "1.0670825d-10", "102124.5d0", "1234567.d0", "3.14159265358979d0", "6.02214076d23", "1.0000001", "9.99999999e-1*1",
            # a power as the right operand of a division (and of a subtraction): it stays one unit
            "2.0d-9/(T32)**(-5.000e-01)", "user_a/Tgas**(-0.5)", "Tgas/invT**0.5", "user_a/Tgas**(-0.5d0)/T32", "1d0/Tgas**2/T32**(-0.5)", "Tgas-T32**(-0.5)", "1d-9/sqrTgas**(-1)", "2.5d0/Tgas**0.5d0*invT", "Tgas/T32**(-2)**1",
            # literals whose exponent is separated from the mantissa (fixed-form spelling) or doubled: reject, or keep the value
            "1.5 e-3*Tgas", "Tgas+2 E 3", "Tgas**(-0.5 e0)", "2.5e-1 e1*Tgas", "4.2d-10*exp(-1.5 e+2*invT)"]
    for e in base:
        if e not in seen:
            seen.add(e)
            out.append(e)
    while len(out) < n:
        e = g(rnd.randint(1, depth))
        if e not in seen and len(e) < 90:
            seen.add(e)
            out.append(e)
    return out


def bundled_exprs(thorough):
    from ..paths import REPO
    files = [REPO + "/naunet/examples/primordial/primordial.krome", REPO + "/tests/data/minimal.krome"] + ([REPO + "/naunet/examples/deuterium/deuterium.krome"] if thorough else [])
    out = []
    for f in files:
        for l in open(f):
            if l.startswith(("#", "@", "//")) or not l.strip():
                continue
            e = l.strip().split(",")[-1]
            if e and e not in out:
                out.append(e)
    return out


# --------------------------------------------------------------------------- run the real translator
TRANSLATE = r"""
import json, sys, os, logging
os.environ['TQDM_DISABLE'] = '1'; logging.disable(logging.CRITICAL)
from naunet.reactions.kromereaction import KROMEReaction
from naunet.species import Species
exprs = json.load(open(sys.argv[1]))
KROMEReaction.initialize()
KROMEReaction.preprocessing('@format:idx,R,R,R,P,P,P,P,P,Tmin,Tmax,rate')
KROMEReaction.preprocessing('@common:' + ','.join(sorted({m for e in exprs for m in __import__('re').findall(r'\buser_\w+', e)} | {'user_a', 'user_crflux'})))
out = []
der = None
for e in exprs:
    try:
        r = KROMEReaction('1,H,D,,HD,,,,,NONE,NONE,' + e)
        out.append({'ok': True, 'c': r.rateexpr()})
        if der is None:
            der = dict(r.deriveds)
    except BaseException as ex:
        out.append({'ok': False, 'error': f'{type(ex).__name__}: {str(ex)[:200]}'})
json.dump({'out': out, 'deriveds': der}, open(sys.argv[2], 'w'))
"""


def translate(exprs, work):
    inp, outp = os.path.join(work, "exprs.json"), os.path.join(work, "c.json")
    json.dump(exprs, open(inp, "w"))
    env = dict(os.environ, TQDM_DISABLE="1", PYTHONHASHSEED="0")
    child_env(env)
    r = subprocess.run([proj.PY, "-c", TRANSLATE, inp, outp], capture_output=True, text=True, env=env, cwd=work, timeout=900)
    if not os.path.exists(outp):
        raise Inconclusive("translator worker failed: " + (r.stderr or r.stdout)[-400:])
    return json.load(open(outp))


def make_tu(cexprs, deriveds, lifted):
    global USER
    macros = "\n".join(f"#define IDX_{a} {i}" for a, i in SLOT.items())
    der = "\n".join(f"    double {k} = {v};" for k, v in (deriveds or {}).items() if k in DERIVED)
    body = "\n".join(f"    out[{i}] = {c};" for i, c in cexprs)
    return f"#include <math.h>\n{macros}\nextern \"C\" void f(double *out, double *y, double Tgas, double nH, {', '.join(['double ' + u for u in USER] + ['double *' + a for a in ARRAYS])}) {{\n{der}\n{body}\n}}\n"


def compile_tu(text, path, table=None):
    src = text if table is None else lift_literals(text, table)
    with open(path, "w") as fh:
        fh.write(src)
    r = subprocess.run([proj.CLANG, *proj.IRFLAGS, "-x", "c++", path, "-o", path + ".ll"], capture_output=True, text=True)
    return (path + ".ll" if r.returncode == 0 else None), r.stderr


def signed_number_family(thorough):
    """a power whose exponent (or base) is an identifier directly followed by a signed number: every combination
    of base, exponent, sign, number spelling and what follows.  Fortran reads b**x-2.5*z as (b**x) - (2.5*z)."""
    bases = ["Tgas", "3.e0", "(Tgas)", "user_a"] if thorough else ["Tgas", "3.e0"]
    exps = ["user_beta", "Tgas", "invT"] if thorough else ["user_beta", "invT"]
    nums = ["2.5d0", "1d-9", "2", "3.5"] if thorough else ["2.5d0", "2"]
    tails = ["", "*invT", "+Tgas", "-Tgas", "/invT", "*2.0", "+1.0", ")"]
    out = []
    for b, x, sg, n, t in itertools.product(bases, exps, "+-", nums, tails):
        e = f"{b}**{x}{sg}{n}{t}"
        out.append("(" + e if t == ")" else e)
        if t in ("", "*invT", "+Tgas"):
            out.append(f"{x}{sg}{n}**{b}{t}")  # the same on the base side
    return out


def main(pid, tier):
    chk = Check("C12", tier)
    proj.ensure_venv()
    thorough = tier == "thorough"
    chk.xc.__init__(every=40 if thorough else 25, first=1, cap=40 if thorough else 8, tlimit_ms=20_000)
    work = os.path.join(proj.scratch_root(), "c12")
    os.makedirs(work, exist_ok=True)
    exprs = gen_exprs(1200 if thorough else 260, chk.seed) + bundled_exprs(thorough)
    exprs += [e for e in signed_number_family(thorough) if e not in exprs]
    global USER, ARRAYS
    ARRAYS = sorted({m for e in exprs for m in re.findall(r"\b(user_\w+)\(idx_", e)})
    USER = sorted((set(USER) | {m for e in exprs for m in re.findall(r"\buser_\w+", e)}) - set(ARRAYS))
    tr = translate(exprs, work)
    deriveds = tr["deriveds"]
    accepted = [(i, exprs[i], o["c"]) for i, o in enumerate(tr["out"]) if o["ok"]]
    rejected = [(exprs[i], o["error"]) for i, o in enumerate(tr["out"]) if not o["ok"]]
    chk.extra["accepted"] = len(accepted)
    chk.extra["rejected_at_generation_time"] = len(rejected)
    chk.extra["rejected_samples"] = rejected[:8]
    T, users = z3.Real("Tgas"), {u: z3.Real(u) for u in USER}
    y = [z3.Real(f"y{j}") for j in range(len(SLOT))]
    env = reference_env(T, users, y)
    arr_syms = {a: [z3.Real(f"{a}__{j}") for j in range(len(SLOT))] for a in ARRAYS}
    env["arrays"] = arr_syms
    t0 = time.time()
    # compile in batches; a batch that fails is split to find the offending expressions
    pending = [accepted[k:k + 120] for k in range(0, len(accepted), 120)]
    batches, bad_c = [], []
    bn = 0
    while pending:
        b = pending.pop()
        bn += 1
        table = {}
        ll, err = compile_tu(make_tu([(n, c) for n, (_, _, c) in enumerate(b)], deriveds, True), os.path.join(work, f"b{bn}.cpp"), table)
        if ll is not None:
            batches.append((b, ll, table))
        elif len(b) == 1:
            first = next((l for l in err.splitlines() if "error:" in l), err[:200])
            bad_c.append((b[0], first))
        else:
            h = len(b) // 2
            pending += [b[:h], b[h:]]
    chk.programs = len(batches)
    for (idx, fe, ce), first in bad_c:
        m = re.search(r"undeclared identifier '(IDX_\w+)'", first)
        if m and re.search(r"n\(idx_(\w+)\)", fe):
            nm = re.search(r"n\(idx_(\w+)\)", fe).group(1)
            chk.violation(f"abundance-ref:idx_{nm}", f"n(idx_{nm}) is accepted but translated to y[{m.group(1)}], which is not the index macro of that species ({SPECIES.get(nm, '?')}): the emitted C does not compile",
                          {"fortran": fe, "c": ce, "compiler": first[-200:], "replay_note": "clang++-14 on the translator's real output with the species' real IDX_ macros defined"})
        else:
            chk.violation(f"invalid-c:{fe}", f"accepted expression {fe!r} is translated to invalid C {ce!r}: {first[-120:]}", {"fortran": fe, "c": ce, "compiler": first[-300:]})
    s = z3.Solver()
    s.set("timeout", 20_000)
    s.add(T > 0, *[v > 0 for v in y], *[u > 0 for u in users.values()], *[v > 0 for vs in arr_syms.values() for v in vs])
    undecided = set()
    natq = []
    for b, ll, table in batches:
        M = Machine([ll], H.base_stubs())
        M.const_globals = {"@" + n: Fraction(float(v)) for n, v in table.items()}
        st = State()
        H.make_array(st, "out", len(b))
        H.make_array(st, "y", len(y), y)
        for a in ARRAYS:
            H.make_array(st, a, len(SLOT), arr_syms[a])
        M.run_function("f", st, [Ptr("out", 0), Ptr("y", 0), T, z3.Real("nH"), *[users[u] for u in USER], *[Ptr(a, 0) for a in ARRAYS]])
        chk.functions.add("ExpressionConverter(Fortran->C) output, compiled")
        for n, (idx, fe, ce) in enumerate(b):
            got = st.load("out", 8 * n)
            name = f"expr[{idx}] {fe}"
            try:
                ref, _ = fortran_term(fe, env)
            except NotFortran as e:
                chk.violation("accepts-non-fortran:" + re.sub(r"[A-Za-z_]\w*", "v", re.sub(r"\d", "9", fe))[:60], f"the translator accepts {fe!r}, which is not a Fortran expression ({e}), and emits C {ce!r}: it should have been rejected", {"fortran": fe, "c": ce, "reader": str(e)})
                continue
            except FortranError as e:
                chk.unknown(name, f"reference reader: {e}")
                continue
            s.push()
            s.add(inv_axioms())
            r_ = str(s.check(R(got) != R(ref)))
            chk.xc.sample(s, [R(got) != R(ref)], r_, name)
            s.pop()
            if r_ == "unsat":
                chk.ok(name)
                chk.nontrivial.add(fe)
                if len(chk.samples) < 4:
                    chk.sample({"fortran": fe, "c": ce, "verdict": "unsat (equal for all variable values)"})
            elif r_ == "sat":
                natq.append((idx, fe, ce, ref, name))
            else:
                # no verdict within the time limit: the concrete comparison of the compiled C with Fortran semantics is
                # still made; a disagreement there is a violation whatever the solver would have said
                natq.append((idx, fe, ce, ref, name))
                undecided.add(idx)
    chk.solver_s = time.time() - t0
    chk._c12_undecided = undecided
    # native replay of the candidates: real libm vs Fortran semantics at random positive points
    if natq:
        _native_replay(chk, natq, deriveds, work)
    chk.bounds = {"generated": "translator's own grammar to depth 3 over + - * / ** ( ), exp sqrt log, literals " + str(LITS) + ", variables " + str(VARS) + ", n(idx_X)", "count": len(exprs), "bundled": "all rate expressions of primordial.krome, minimal.krome" + (", deuterium.krome" if thorough else "")}
    chk.assumptions = ["Fortran semantics per the language standard: ** right-associative and above unary minus, integer division of integer literals, d/e exponents", "libm uninterpreted (exact at 0/1); variables positive in replays",
                       "expressions the translator rejects are not judged (rejection is allowed); KROME's idx names are mapped to naunet aliases as H->HI, D->DI, H2->H2I, Hp->HII, Hm->HM, E->eM, HE->HeI"]
    chk.extra["repo_fingerprint"] = proj.repo_fingerprint()
    return chk.finish(rule="one obligation = one z3 query 'exists variable values: compiled C translation != Fortran-semantics term' per accepted expression")


def _native_replay(chk, natq, deriveds, work):
    import math

    rnd = random.Random(chk.seed + 3)
    tu = make_tu([(n, c) for n, (_, _, c, _, _) in enumerate(natq)], deriveds, False)
    tu += "#include <stdio.h>\nint main(int argc, char** argv) { double y[16]; double in[256]; for (int i = 1; i < argc; i++) sscanf(argv[i], \"%%lf\", &in[i-1]);\n for (int j = 0; j < %d; j++) y[j] = in[%d + j];\n static double out[%d]; f(out, y, in[0], in[1]%s%s); for (int i = 0; i < %d; i++) printf(\"%%.17g\\n\", out[i]); return 0; }\n" % (len(SLOT), 2 + len(USER), len(natq) + 1, "".join(f", in[{2 + k}]" for k in range(len(USER))), "".join(f", in + {2 + len(USER) + len(SLOT) * (1 + k)}" for k in range(len(ARRAYS))), len(natq))
    src = os.path.join(work, "replay.cpp")
    open(src, "w").write(tu)
    r = subprocess.run(["g++", "-O0", "-w", "-ffp-contract=off", src, "-o", src + ".exe", "-lm"], capture_output=True, text=True)
    if r.returncode != 0:
        for idx, fe, ce, ref, name in natq:
            chk.unknown(name, "sat; native replay build failed")
        return
    confirmed = {}
    for attempt in range(6):
        vals = [rnd.uniform(5, 500), rnd.uniform(1, 100)] + [rnd.uniform(0.5, 4) for _ in USER] + [rnd.uniform(0.1, 3) for _ in SLOT] + [rnd.uniform(0.2, 5) for _ in ARRAYS for _j in SLOT]
        out = subprocess.run([src + ".exe", *[repr(v) for v in vals]], capture_output=True, text=True).stdout.split()
        envf = {"Tgas": vals[0], "nH": vals[1]}
        envf.update({u: vals[2 + k] for k, u in enumerate(USER)})
        envf.update({f"y{j}": vals[2 + len(USER) + j] for j in range(len(SLOT))})
        envf.update({f"{a}__{j}": vals[2 + len(USER) + len(SLOT) * (1 + k) + j] for k, a in enumerate(ARRAYS) for j in range(len(SLOT))})
        for n, (idx, fe, ce, ref, name) in enumerate(natq):
            if idx in confirmed:
                continue
            try:
                exp = evalf(R(ref), envf)
                got = float(out[n])
            except (EvalError, ValueError, IndexError, OverflowError):
                continue
            chk.replays_done += 1
            if math.isnan(exp) or math.isinf(exp) or math.isnan(got):
                continue
            if abs(got - exp) > 1e-9 * max(abs(got), abs(exp), 1e-300):
                confirmed[idx] = (fe, ce, got, exp, envf)
    for idx, fe, ce, ref, name in natq:
        if idx in confirmed:
            fe, ce, got, exp, envf = confirmed[idx]
            chk.violation(shape_key(fe, ce), f"Fortran {fe!r} is translated to C {ce!r}, which evaluates to {got!r} where Fortran semantics give {exp!r}", {"fortran": fe, "c": ce, "point": envf, "native_c": got, "fortran_value": exp})
        elif idx in getattr(chk, "_c12_undecided", ()):
            chk.unknown(name, "solver unknown; the native C value agrees with Fortran semantics at 6 random points")
        else:
            chk.unknown(name, "terms differ with uninterpreted libm but the native C value agrees with Fortran semantics at 6 random points")


def shape_key(fe, ce=""):
    """findings are keyed by the syntactic feature that is mistranslated"""
    c = ce.replace(" ", "")
    if re.search(r"pow\([A-Za-z_][\w.+-]*[+-]\d", c):
        return "lexer:signed-number-glued-to-preceding-variable"
    # same lexer feature on the exponent side: 'a**v+1d-9' -> pow(a, v+1e-9)
    f = fe.replace(" ", "")
    # (the recorded defect glues only when another + or - follows the number: 'a**v+1d-9+w'; before '*', '/', ')' or the
    # end of the expression the exponent is split correctly)
    if re.search(r",[A-Za-z_]\w*[+-]\d[\w.+-]*\)", c) and \
            re.search(r"\*\*[A-Za-z_]\w*[+-](?:\d+\.?\d*|\.\d+)(?:[deDE][+-]?\d+)?[+-]", f):
        return "lexer:signed-number-glued-to-preceding-variable"
    if re.search(r"pow\(-[\d.]", c):
        return "lexer:signed-literal-as-power-base"
    if "pow(pow(" in c and fe.count("**") >= 2:
        return "power:chained-**-is-left-associated"
    # integer ** integer is an integer in Fortran (so 2/(3**3+2) is an integer division), pow() makes it a double
    if re.search(r"pow\(\d+,\(?-?\d+\)?\)", c) and re.search(r"(?<![\w.])\d+\*\*\(?-?\d+\)?(?![\w.])", f) and "/" in f:
        return "integer-arithmetic:int**int-becomes-double-pow"
    return "expr:" + fe
