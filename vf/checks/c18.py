"""C18 -- writing a network and reading it back preserves the model; an exported
project re-rendered from its own files computes the same rates or is refused."""
from __future__ import annotations

import concurrent.futures as cf
import multiprocessing as mp
import time
import traceback

import z3

from .. import encoders, ode, proj
from ..irsym import Inconclusive, R, inv_axioms
from ..report import Check
from . import rates_props as rp

from ..paths import REPO
TD = REPO + "/tests/data"


from ..xcheck import XCheck

XC = XCheck()

def corpus(thorough):
    out = []
    for fmt in ("kida", "umist", "leeds", "uclchem", "naunet"):
        lines = [r for r in rp.build_lines(fmt, False, 0) if not (fmt == "leeds" and r["code"] in (5, 15, 19))]  # no reaction type at all: cannot be written
        # a few per type code (first three coefficient classes + one literal-shape row)
        seen, keep = {}, []
        # generic rows (no vanishing coefficient) first: two laws that differ only in how they use alpha/beta/gamma
        # coincide on rows with a zero coefficient
        zero = lambda r: sum(1 for f in ("a", "b", "c") if float(r[f]) == 0.0)
        for r in sorted(lines, key=zero):
            n = seen.get(r["code"], 0)
            if n < (6 if thorough else 3):
                keep.append(r)
                seen[r["code"]] = n + 1
        if fmt == "uclchem":
            keep.append({"reactants": ["H", "H"], "products": ["H2"], "a": "1.0e-17", "b": "0.0", "c": "0.0", "tmin": "0", "tmax": "0", "idx": 999, "code": ""})
        if fmt in ("kida", "leeds", "naunet"):
            # all slots used: 3 reactants / 5 products
            full = dict(keep[0])
            full["reactants"] = ["CH3OH", "He+", {"kida": "CR", "leeds": "CRP", "naunet": "CR"}[fmt]]
            full["products"] = ["He", "C+", "OH", "H2", "H"]
            keep.append(full)
        for k, r in enumerate(keep):
            r["idx"] = k + 1
        out.append((f"enc-{fmt}", {"files": [{"name": f"net.{fmt}", "content": rp.file_text(fmt, keep)}], "network": {"filelist": f"net.{fmt}", "fileformats": fmt}}, keep, fmt))
    for nm, f, fmt in (("minimal.kida", "minimal.kida", "kida"), ("minimal.umist", "minimal.umist", "umist"), ("minimal.leeds", "minimal.leeds", "leeds"), ("minimal.krome", "minimal.krome", "krome"), ("duplicate.kida", "duplicate.kida", "kida")):
        out.append((f"B-{nm}", {"network": {"filelist": f"{TD}/{f}", "fileformats": fmt}}, None, fmt))
    out.append(("B-primordial.krome", {"network": {"filelist": REPO + "/naunet/examples/primordial/primordial.krome", "fileformats": "krome", "elements": ["e", "H", "D", "He"], "pseudo_elements": ["Photon"]}}, None, "krome"))
    api = [{"reactants": ["H", "H"], "products": ["H2"], "alpha": 1.5e-10, "beta": -0.5, "gamma": 3.25, "temp_min": 10.0, "temp_max": 300.0, "reaction_type": 100, "idxfromfile": 7},
           {"reactants": ["H2", "CR"], "products": ["H", "H"], "alpha": 2.0e-17, "reaction_type": 101, "idxfromfile": 8},
           {"reactants": ["CO", "PHOTON"], "products": ["C", "O"], "alpha": 2.0e-10, "gamma": 2.5, "reaction_type": 102, "idxfromfile": 9},
           {"reactants": ["H", "H", "H"], "products": ["H2", "H"], "alpha": 1e-32, "beta": -1.0, "reaction_type": 100, "idxfromfile": -1},
           {"reactants": ["CH3OH2+", "e-"], "products": ["C", "O", "H", "H2", "H2"], "alpha": 3e-8, "beta": -0.5, "reaction_type": 100, "idxfromfile": 11},
           {"reactants": ["CH3OH", "He+", "CR"], "products": ["He", "C+", "OH", "H2", "H"], "alpha": 1e-9, "reaction_type": 100, "idxfromfile": 12},
           # names wider than the 12-character species column of the native format (two of them share their first 12 characters)
           {"reactants": ["HOCH2CH2CH2OH", "H3+"], "products": ["HOCH2CH2CH2OH2+", "H2"], "alpha": 2e-9, "beta": -0.5, "reaction_type": 100, "idxfromfile": 13},
           {"reactants": ["HOCH2CH2CH2OH2+", "e-"], "products": ["HOCH2CH2CH2OH", "H"], "alpha": 3e-7, "beta": -0.5, "reaction_type": 100, "idxfromfile": 14}]
    out.append(("API", {"reactions": api, "network": {}}, None, "api"))
    # extra (required) species and no allowed-species restriction: the exported project must re-render to the same network
    out.append(("API-required", {"reactions": api[:3], "network": {"required_species": ["He", "Ne+"]}}, None, "api"))
    # gas-grain network whose binding energies and photon yields were customised by the user: the export must carry them
    # API-built gas-grain network whose binding energies were customised by the user: the export must carry them
    ice = [{"reactants": [x], "products": ["#" + x], "alpha": 1.0, "reaction_type": 200, "idxfromfile": 20 + k} for k, x in enumerate(("C", "O", "CO"))]
    ice += [{"reactants": ["#" + x], "products": [x], "alpha": 1.0, "reaction_type": 201, "idxfromfile": 30 + k} for k, x in enumerate(("C", "O", "CO"))]
    ice += [{"reactants": ["C", "O"], "products": ["CO"], "alpha": 1e-10, "reaction_type": 100, "idxfromfile": 50}]
    pre = [{"op": "exec", "code": "from naunet.chemistrydata import update_binding_energy\nupdate_binding_energy({'#CO': 1300.0, '#O': 1660.0})\n"}]
    out.append(("API-ice-user-binding", {"reactions": ice, "pre": pre, "network": {"grain_model": "hh93"}}, None, "api"))
    from . import c11
    for nm, fmt_, model, mk, user in (("ice-leeds-hh93-user-tables", "leeds", "hh93", c11.leeds_lines, {"binding": {"GCO": 855.0, "GCH4": 1234.5}, "yields": {"GCO": 0.0027, "GH2O": 0.5}}),
                                      ("ice-uclchem-rr07x-user-tables", "uclchem", "rr07x", lambda: c11.ucl_lines() + c11.ucl_therm_lines(), {"binding": {"#CO": 1300.0, "#CH4": 1234.5}, "yields": {"#CO": 0.0027, "#H2O": 0.5}})):
        sp_ = c11._spec(fmt_, model, mk(), user)
        sp_.pop("targets", None)
        if fmt_ == "leeds":
            sp_["network"]["species_kwargs"] = {"surface_prefix": "G"}  # the Leeds spelling of ice species; also needed to read the written file back
        out.append((nm, sp_, None, fmt_))
    return out


FIELDS = ("reactants", "products", "temp_min", "temp_max", "reaction_type", "idxfromfile")


def analyse(name, base, lines, fmt, tier):
    res = {"case": name, "ok": [], "unknown": [], "viol": [], "errors": [], "notes": [], "samples": [], "solver_s": 0.0, "programs": 0, "functions": []}
    try:
        _analyse(name, base, lines, fmt, tier, res)
    except Exception as e:
        res["errors"].append(f"{type(e).__name__}: {e}\n{traceback.format_exc()[-1500:]}")
    return res


def _eq_terms(res, tag, what, xa, xb, s, replay, keyof=None):
    seen = set()
    for i, (a, b) in enumerate(zip(xa, xb)):
        if a is None or b is None:
            continue
        r_ = str(s.check(R(a) != R(b)))
        XC.sample(s, [R(a) != R(b)], r_, f"{tag}:{what}[{i}]")
        if r_ == "unsat":
            res["ok"].append(f"{tag}:{what}[{i}]")
        elif r_ == "sat":
            key = keyof(i) if keyof else f"{tag}:{what}[{i}]"
            if key in seen:
                continue
            seen.add(key)
            if replay.get("natives") and what == "k":
                # replay: the natively compiled direct and re-rendered EvalRates at the solver's point
                m = s.model()
                env = {}
                for nm in ("Tgas", "Av", "zeta", "omega", "nH", "zeta_cr", "zeta_xr", "G0", "Tdust"):
                    v = m.eval(z3.Real(nm), model_completion=True)
                    try:
                        env[nm] = float(v.numerator_as_long()) / float(v.denominator_as_long())
                    except Exception:
                        env[nm] = 1.0
                for nm, dflt in (("Tgas", 50.0), ("omega", 0.5)):
                    if not (env[nm] > 0 and env[nm] != 1):
                        env[nm] = dflt
                try:
                    nd, ne, neq = replay["natives"]
                    vd = nd.eval([1.0] * neq, data=env)["k"].get(i)
                    ve = ne.eval([1.0] * neq, data=env)["k"].get(i)
                    res["replays"] = res.get("replays", 0) + 1
                    from ..native import close
                    if vd is None or ve is None or close(vd, ve, 1e-9, 0.0):
                        # try a generic point before giving up
                        env.update({"Tgas": 77.0, "Av": 1.3, "zeta": 2.6e-17, "omega": 0.4, "zeta_cr": 2.6e-17, "zeta_xr": 1e-18, "G0": 2.0})
                        vd = nd.eval([1.0] * neq, data=env)["k"].get(i)
                        ve = ne.eval([1.0] * neq, data=env)["k"].get(i)
                    if vd is None or ve is None or close(vd, ve, 1e-9, 0.0):
                        res["unknown"].append((key, f"terms differ symbolically but the native builds agree ({vd} vs {ve})"))
                        continue
                    replay = dict({k_: v_ for k_, v_ in replay.items() if k_ != "natives"}, point=env, native_direct=vd, native_rerendered=ve)
                except Exception as e:  # native replay unavailable
                    res["unknown"].append((key, f"sat; native replay failed: {str(e)[:200]}"))
                    continue
            replay = {k_: v_ for k_, v_ in replay.items() if k_ != "natives"}
            res["viol"].append({"key": key, "what": f"exported project silently computes a different law ({key}): {what}[{i}] direct {z3.simplify(R(a))} vs re-rendered {z3.simplify(R(b))}"[:460].replace("\n", " "), "replay": dict(replay, index=i)})
        else:
            res["unknown"].append((f"{tag}:{what}[{i}]", r_))


def _export_vs_direct(name, direct, expdir, lines, fmt, res, label):
    """rate coefficients and derivatives of the project exported under <expdir>, re-rendered from its own files,
    against the direct rendering of the same network object (SMT equivalence per entry); a refusal is allowed"""
    tgt = proj.TARGETS["dense"]
    tdir = tgt["dir"]
    s = z3.Solver()
    s.set("timeout", 60_000)
    try:
        rd = ode.run_rates(direct, tdir, lifted=ode.load(direct, tdir, "rates", extra=("naunet_constants.cpp",), lift=True))
        fd = ode.run_fex(direct, tdir)
    except Inconclusive as e:
        res["unknown"].append((label, f"encoder: {e}"))
        return
    if rd.compile_errors or fd.compile_errors:
        res["unknown"].append((label, "direct rendering does not compile (C05/C10)"))
        return
    res["functions"] += [f"{tdir}:EvalRates", f"{tdir}:Fex"]
    s.add(inv_axioms())
    t0 = time.time()
    exp = proj.rerender_exported(direct, expdir, tdir)
    if not exp.ok:
        res["ok"].append(f"{label}:refused")
        res["notes"].append(f"exported project refused on re-render (allowed by the property): {exp.meta.get('error', '')[-200:]}")
    else:
        res["programs"] += 1
        try:
            if exp.macros(tdir) != direct.macros(tdir):
                dm, em = direct.macros(tdir), exp.macros(tdir)
                diff = {k: (dm.get(k), em.get(k)) for k in sorted(set(dm) | set(em)) if dm.get(k) != em.get(k)}
                res["viol"].append({"key": f"{label}:macros", "what": f"macro table of the re-rendered export differs from the direct rendering of the exported network: {dict(list(diff.items())[:5])}", "replay": {"case": name, "diff": {k: list(v) for k, v in list(diff.items())[:40]}}})
            else:
                re_ = ode.run_rates(exp, tdir, lifted=ode.load(exp, tdir, "rates", extra=("naunet_constants.cpp",), lift=True))
                fe = ode.run_fex(exp, tdir)
                if re_.compile_errors or fe.compile_errors:
                    tu, err = next(iter((re_.compile_errors or fe.compile_errors).items()))
                    first = next((l for l in err.splitlines() if "error:" in l), err[:200])
                    res["notes"].append(f"re-rendered export does not compile: {first[-160:]}")
                    res["unknown"].append((label, "re-rendered export does not compile (a loud failure, not a silent change)"))
                else:
                    rmeta = direct.meta["reactions"]

                    def keyof(i):
                        r = rmeta[i] if i < len(rmeta) else {}
                        code = r.get("extra", {}).get("code") or r.get("extra", {}).get("rtype") or r.get("extra", {}).get("formula")
                        if lines is not None and i < len(lines):
                            code = lines[i]["code"]
                        return f"export-retyped:{fmt}:code={code!r}:type={r.get('reaction_type')}"

                    from ..native import NativeEval
                    natives = (NativeEval(direct, tdir, real_rates=True), NativeEval(exp, tdir, real_rates=True), direct.macros(tdir)["NEQUATIONS"])
                    _eq_terms(res, label, "k", rd.kout, re_.kout, s, {"case": name, "format": fmt, "config": exp.meta.get("config_text", "")[-800:], "natives": natives}, keyof)
                    _eq_terms(res, label, "ydot", fd.ydot, fe.ydot, s, {"case": name, "format": fmt})
        except Inconclusive as e:
            res["unknown"].append((label, f"encoder: {e}"))
    res["solver_s"] += time.time() - t0


def _analyse(name, base, lines, fmt, tier, res):
    tgt = proj.TARGETS["dense"]
    tdir = tgt["dir"]
    direct = proj.render(f"{name}-direct", dict(base, targets=[dict(tgt)], ops=[{"op": "export", "name": tdir, "prefix": "exp"}]))
    if not direct.ok or not direct.target_ok(tdir):
        res["notes"].append(f"direct rendering refused: {direct.meta.get('error') or direct.meta['targets'].get(tdir)}")
        return
    res["programs"] += 1
    # -- write / read cycles: same reactions, same order; second cycle idempotent
    kw2 = dict(base)
    cyc = proj.render(f"{name}-cycle", dict(base, targets=[dict(tgt)], ops=[{"op": "write_read", "file": "w1.naunet", "format": "naunet"}, {"op": "write_read", "file": "w2.naunet", "format": "naunet"}]))
    if not cyc.ok:
        err_ = str(cyc.meta.get("error"))
        key_ = "native-reader:leeds-ice-prefix" if (fmt == "leeds" and "starts with something unrecognizable" in err_) else f"{name}:cycle-refused"
        res["viol"].append({"key": key_, "what": f"a network written in the native format cannot be read back: {err_[-300:]}", "replay": {"case": name, "format": fmt, "error": err_[-1500:]}})
    else:
        ra, rb = direct.meta["reactions"], cyc.meta["reactions"]
        if len(ra) != len(rb):
            res["viol"].append({"key": f"{name}:cycle-count", "what": f"{len(ra)} reactions written, {len(rb)} read back", "replay": {"case": name}})
        else:
            for i, (a, b) in enumerate(zip(ra, rb)):
                diffs = [f for f in FIELDS if (sorted(a[f]) if isinstance(a[f], list) else a[f]) != (sorted(b[f]) if isinstance(b[f], list) else b[f])]
                # idxfromfile of unindexed networks is assigned at render time in both
                for f in ("alpha", "beta", "gamma"):
                    if float(f"{a[f]:10.3e}") != b[f]:
                        diffs.append(f)
                # temperatures are printed with 2 decimals
                diffs = [f for f in diffs if not (f in ("temp_min", "temp_max") and round(a[f], 2) == b[f])]
                if diffs and a["cls"] != "KROMEReaction":
                    res["viol"].append({"key": f"{name}:cycle:{i}:{','.join(diffs)}", "what": f"reaction {i} changes {diffs} in a write/read cycle: {dict((f, a[f]) for f in diffs)} -> {dict((f, b[f]) for f in diffs)}", "replay": {"case": name, "before": a, "after": b}})
                else:
                    res["ok"].append(f"{name}:cycle:{i}")
        if [s_["name"] for s_ in direct.meta["species"]] != [s_["name"] for s_ in cyc.meta["species"]]:
            res["viol"].append({"key": f"{name}:cycle-species", "what": "species list changes in a write/read cycle", "replay": {"case": name}})
        else:
            res["ok"].append(f"{name}:cycle-species")
    # -- a cycle after an edit: the network read back from the native file is edited through the API (coefficient,
    #    window, re-indexing) and written again; what is read back is the edited network
    if cyc.ok and len(direct.meta["reactions"]) >= 1:
        edit = {"op": "exec", "code": "r0 = net.reaction_list[0]\nr0.alpha = r0.alpha * 3 + 1\nr0.temp_max = 777.0\nrl = net.reaction_list[-1]\nrl.gamma = rl.gamma + 12.5\nnet.reindex()\n"}
        w1 = {"op": "write_read", "file": "w1.naunet", "format": "naunet"}
        mem = proj.render(f"{name}-edit-mem", dict(base, targets=[dict(tgt)], ops=[w1, edit]))
        back = proj.render(f"{name}-edit-back", dict(base, targets=[dict(tgt)], ops=[w1, edit, {"op": "write_read", "file": "w2.naunet", "format": "naunet"}]))
        if mem.ok and back.ok:
            ra, rb = mem.meta["reactions"], back.meta["reactions"]
            if len(ra) != len(rb):
                res["viol"].append({"key": f"{name}:edit-cycle-count", "what": f"edited network: {len(ra)} reactions written, {len(rb)} read back", "replay": {"case": name}})
            for i, (a, b) in enumerate(zip(ra, rb)):
                diffs = [f for f in FIELDS if (sorted(a[f]) if isinstance(a[f], list) else a[f]) != (sorted(b[f]) if isinstance(b[f], list) else b[f])]
                for f in ("alpha", "beta", "gamma"):
                    if float(f"{a[f]:10.3e}") != b[f]:
                        diffs.append(f)
                diffs = [f for f in diffs if not (f in ("temp_min", "temp_max") and round(a[f], 2) == b[f])]
                if diffs:
                    res["viol"].append({"key": f"{name}:edit-cycle:{i}:{','.join(sorted(set(diffs)))}", "what": f"reaction {i}, edited through the API after it was read from a native file, is written and read back with {dict((f, b[f]) for f in diffs)} instead of {dict((f, a[f]) for f in diffs)}", "replay": {"case": name, "in_memory": a, "read_back": b, "edit": edit["code"]}})
                else:
                    res["ok"].append(f"{name}:edit-cycle:{i}")
        else:
            res["notes"].append(f"{name}: edit cycle not rendered: {str(mem.meta.get('error') or back.meta.get('error'))[-160:]}")
    # -- E1: direct rendering vs re-read copy vs exported + re-rendered
    _export_vs_direct(name, direct, "exp", lines, fmt, res, f"{name}:export-rerender")
    # -- the same after a history: the project directory already holds the export of an *earlier* version of the
    #    network (last reaction missing, first coefficient different); exporting the final network over it
    #    (overwrite=True) must leave a project that describes the final network
    if len(direct.meta["reactions"]) >= 2:
        hist_ops = [{"op": "exec", "code": "net._verif_last = net.reaction_list[-1]\nnet.remove_reaction(len(net.reaction_list) - 1)\nr0 = net.reaction_list[0]\nr0._verif_alpha = r0.alpha\nr0.alpha = r0.alpha * 2 + 1\n"},
                    {"op": "export", "name": tdir, "prefix": "exph"},
                    {"op": "exec", "code": "r0 = net.reaction_list[0]\nr0.alpha = r0._verif_alpha\nnet.add_reaction(net._verif_last)\n"},
                    {"op": "export", "name": tdir, "prefix": "exph"}]
        hist = proj.render(f"{name}-history", dict(base, targets=[dict(tgt)], ops=hist_ops))
        if not hist.ok or not hist.target_ok(tdir):
            res["notes"].append(f"{name}: export history not rendered: {str(hist.meta.get('error') or hist.meta['targets'].get(tdir))[-200:]}")
        else:
            res["programs"] += 1
            _export_vs_direct(name, hist, "exph", lines, fmt, res, f"{name}:export-over-earlier-export")
    if len(res["samples"]) < 1:
        res["samples"].append({"case": name, "reactions": len(direct.meta["reactions"]), "compared": "write/read fields (ground) + k/ydot terms direct vs exported+re-rendered (SMT)"})


def _work_inner(a):
    return analyse(*a)


def _work(a):
    tier = a[-1] if isinstance(a[-1], str) and a[-1] in ("quick", "thorough") else next((x for x in a if x in ("quick", "thorough")), "quick")
    XC.__init__(every=15 if tier == "thorough" else 40, first=1, cap=10 if tier == "thorough" else 3)
    r = _work_inner(a)
    if isinstance(r, dict):
        r["xcheck"] = XC.summary()
    return r


def main(pid, tier):
    chk = Check("C18", tier)
    proj.ensure_venv()
    cs = corpus(tier == "thorough")
    ctx = mp.get_context("fork")
    with cf.ProcessPoolExecutor(max_workers=12, mp_context=ctx) as ex:
        results = list(ex.map(_work, [(n, b, l, f, tier) for n, b, l, f in cs]))
    for r in results:
        chk.replays_done += r.get("replays", 0)
        chk.programs += r["programs"]
        chk.solver_s += r["solver_s"]
        chk.functions.update(r["functions"])
        chk.xc.merge(r.get("xcheck"))
        for n in r["ok"]:
            chk.ok(n)
            chk.nontrivial.add(n)
        for n, w in r["unknown"]:
            chk.unknown(n, w)
        for v in r["viol"]:
            chk.violation(v["key"], v["what"], v["replay"])
        for e in r["errors"]:
            chk.harness_error(f"{r['case']}: {e}")
        chk.notes += [f"{r['case']}: {n}" for n in r["notes"]]
        for s_ in r["samples"]:
            chk.sample(s_)
    chk.bounds = {"networks": [c[0] for c in cs], "cycles": 2, "export": "Network.export + `naunet render --force` in the exported directory", "back_end": "cvode dense"}
    chk.assumptions = ["alpha/beta/gamma are compared to the printed precision (10.3e), temperatures to 2 decimals", "KROME reactions carry their rate as text, not coefficients: their write/read cycle is outside the first sentence (checked only for being refused or equivalent)",
                       "rate equivalence is over all parameter values (libm uninterpreted, exact literals)"]
    chk.extra["repo_fingerprint"] = proj.repo_fingerprint()
    return chk.finish(rule="one obligation = one reaction compared field-wise across a write/read cycle (ground) or one SMT equivalence of a rate coefficient / derivative between the direct and the exported+re-rendered project")
