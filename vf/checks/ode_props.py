"""C01-C04: thin drivers over vf.odecheck (one worker process per corpus member)."""
from __future__ import annotations

import concurrent.futures as cf
import multiprocessing as mp
import os

from .. import corpus, harness, odecheck, proj
from ..report import Check

TARGETS_ALL = ["dense", "sparse", "odeint", "cusparse"]


def _work(args):
    case, tier, props, targets, seed = args
    return odecheck.analyse(case, tier, props, targets, seed)


def run_cases(chk, cases, props, targets, jobs=None):
    proj.ensure_venv()
    jobs = jobs or min(16, os.cpu_count() or 4)
    work = [(c, chk.tier, props, targets, chk.seed) for c in cases]
    # biggest first
    work.sort(key=lambda w: -len(w[0].spec.get("reactions") or []) - (5000 if "large" in w[0].tags else 0))
    ctx = mp.get_context("fork")
    results = []
    with cf.ProcessPoolExecutor(max_workers=jobs, mp_context=ctx) as ex:
        for r in ex.map(_work, work):
            results.append(r)
    return results


def fold(chk, results, pid):
    for r in results:
        chk.programs += r["programs"]
        chk.solver_s += r["solver_s"]
        chk.replays_done += r["replays"]
        chk.functions.update(r["functions"])
        chk.xc.merge(r.get("xcheck"))
        for e in r["errors"]:
            chk.harness_error(f"{r['case']}: {e}")
        for n in r["notes"]:
            chk.notes.append(f"{r['case']}: {n}")
        chk.canaries["expected_sat"] += r["canary"]["exp"]
        chk.canaries["got_sat"] += r["canary"]["got"]
        if r["canary"]["got"] < r["canary"]["exp"]:
            chk.harness_error(f"{r['case']}: canary mutation not detected")
        sc = r.get("selfcheck")
        if sc:
            tot = chk.extra.setdefault("translator_self_validation", {"projects": 0, "values_compared_with_native_build": 0, "mismatch": 0})
            tot["projects"] += sc["projects"]
            tot["values_compared_with_native_build"] += sc["compared"]
            tot["mismatch"] += sc["mismatch"]
        o = r["obl"][pid]
        chk.obligations += o["ok"]
        chk.discharged += o["ok"]
        if o["ok"]:
            chk.nontrivial.add(r["case"])
        for name, why in o["unknown"]:
            chk.unknown(name, why)
        for v in o["viol"]:
            chk.violation(v["key"], v["what"], v["replay"])
        for s in o["samples"]:
            chk.sample(s)
    chk.extra["cases"] = [r["case"] for r in results]
    chk.extra["render_refused"] = {r["case"]: r.get("render_refused") for r in results if r.get("render_refused")}
    chk.extra["repo_fingerprint"] = proj.repo_fingerprint()
    chk.extra["stubs"] = harness.STUB_DOC


COMMON_ASSUME = [
    "real arithmetic: IEEE rounding, overflow and NaN propagation are outside the claim",
    "the 'all networks' quantifier is bounded by the enumerated corpus (see coverage.cases); the solver ranges over all abundance vectors, rate values and NaunetData fields for each",
    "clang++-14 -O1 lowering of the emitted C++ (against declaration-only SUNDIALS/Boost/CUDA shims) is trusted; the IR interpreter is cross-checked by native replays",
    "cusparse: kernel text executed sequentially (one thread, nsystem=1) after rewriting <<<...>>> launches to plain calls; real GPU scheduling is out of scope",
]


def main(pid, tier):
    chk = Check(pid, tier)
    chk.assumptions = list(COMMON_ASSUME)
    thorough = tier == "thorough"
    if pid == "C04":
        from .. import corpus_balanced
        cases = corpus_balanced.cases(thorough, chk.seed)
    else:
        cases = corpus.thorough_corpus(chk.seed) if thorough else corpus.quick_corpus(chk.seed)
    if pid in ("C02", "C03"):
        cases = cases + corpus.modifier_cases()
    targets = TARGETS_ALL
    chk.bounds = {"corpus": [c.name for c in cases], "back_ends": targets, "max_reactants": 3, "max_products": 5, "solver_timeout_s": odecheck.SOLVER_TIMEOUT_MS / 1000}
    results = run_cases(chk, cases, [pid], targets)
    fold(chk, results, pid)
    return chk.finish(rule="one obligation = one z3 query 'exists inputs with emitted != reference' per (corpus member, back-end, slot/entry); unsat = discharged; distinct_nontrivial counts corpus members with at least one discharged obligation")
