"""C11 -- grain-surface rate coefficients follow the selected dust model."""
from __future__ import annotations

import concurrent.futures as cf
from ..paths import REPO
import multiprocessing as mp
import os
import re
import time
import traceback
from fractions import Fraction

import z3

from .. import encoders, harness as H, native, ode, proj
from ..evalz3 import EvalError, evalf
from ..irsym import Inconclusive, R, fadd, fdiv, fmul, fneg, fsub, inv_axioms, is_sym
from ..report import Check

F = lambda s: Fraction(float(s))
P = lambda n: z3.Real(n)
EXP = lambda x: H.UF1("exp", x)
SQRT = lambda x: H.UF1("sqrt", x)
POW = lambda x, y: H.UF2("pow", x, y)


from ..xcheck import XCheck

XC = XCheck()

def mul(*xs):
    r = Fraction(1)
    for x in xs:
        r = fmul(r, x)
    return r


# independent species data ---------------------------------------------------
MASS = {"H": 1, "D": 2, "He": 4, "C": 12, "N": 14, "O": 16, "S": 32, "Si": 28}


def mass_number(name):
    name = name.lstrip("#G").rstrip("+-") if name[0] in "#G" else name.rstrip("+-")
    tot = 0
    for sym, cnt in re.findall(r"([A-Z][a-z]?)(\d*)", name):
        tot += MASS[sym] * (int(cnt) if cnt else 1)
    return tot


def binding_energies():
    out = {}
    for l in open(REPO + "/naunet/chemistrydata/rate12_binding_energy.dat", encoding="latin1"):
        if l.startswith("#") or not l.strip():
            continue
        p = l.split()
        out[p[0]] = F(p[1])
    return out


EB = binding_energies()
CONST = {"pi": "3.1415926", "amu": "1.6605402e-24", "meu": "5.48579909e-4", "echarge": "4.80320425e-10", "kerg": "1.380658e-16", "hbar": "1.054571726e-27", "zism": "1.3e-17", "habing": "1e8", "crphot": "1e4"}
C = {k: F(v) for k, v in CONST.items()}
MANT = "GetMantleDens"


# laws ------------------------------------------------------------------------
def rr07_common():
    gxsec = mul(C["pi"], P("rG"), P("rG"), P("gdens"))
    mant = P(MANT)
    mantabund = fdiv(mant, P("nH"))
    return gxsec, mant, mantabund


def law_rr07(kind, sp, a, eb, yld, extended=False):
    gxsec, mant, mantabund = rr07_common()
    T = P("Tgas")
    A = 0 if sp.upper() in ("E-", "E") else mass_number(sp)
    zeta = fdiv(P("zeta"), C["zism"])
    if kind == "FREEZE":
        base = mul(F("4.57e4"), a, gxsec, P("fr"))
        corr = fadd(Fraction(1), fdiv(F("16.71e-4"), fmul(P("rG"), T)))
        if sp.upper() in ("E-", "E"):
            return fmul(base, corr)
        ch = sp.count("+") - sp.count("-")
        sq = SQRT(fdiv(T, Fraction(A)))
        return mul(base, sq) if ch == 0 else mul(base, sq, corr)
    guard = lambda inner, lim: z3.If(mantabund > R(F("1e-30")), z3.If(P(lim) >= R(eb), R(inner), z3.RealVal(0)), z3.RealVal(0))
    if kind == "DEUVCR":
        phot = fadd(zeta, fmul(fdiv(P("G0"), P("uvcreff")), EXP(fmul(F("-1.8"), P("Av")))))
        return guard(fdiv(mul(P("opt_uvd"), F("4.875e3"), gxsec, phot, yld), mant), "eb_uvd")
    if kind == "DESCR":
        return guard(fdiv(mul(P("opt_crd"), F("4.0"), C["pi"], P("crdeseff"), zeta, F("1.64e-4"), gxsec), mant), "eb_crd")
    if kind == "DESOH2":
        h2form = mul(F("1.0e-17"), SQRT(T), P("nH"))
        return guard(fdiv(mul(P("opt_h2d"), P("h2deseff"), h2form, P("y_H")), mant), "eb_h2d")
    if kind == "THERM" and extended:
        densites = mul(F("4.0"), gxsec, P("sites"))
        inner = mul(P("opt_thd"), SQRT(fdiv(mul(F("2.0"), P("sites"), C["kerg"], eb), mul(C["pi"], C["pi"], C["amu"], Fraction(A)))), F("2.0"), densites, EXP(fdiv(fneg(eb), P("Tdust") if False else P("Tgas"))))
        return z3.If(mantabund > R(F("1e-30")), R(inner), z3.RealVal(0))
    return None


def hh93_common():
    garea = mul(F("4.0"), C["pi"], P("rG"), P("rG"), P("gdens"))
    densites = fmul(garea, P("sites"))
    mant = P(MANT)
    layers = fdiv(mant, fmul(P("nMono"), densites))
    a_, b_ = fdiv(layers, mant), fdiv(Fraction(1), mant)
    cov = z3.If(mant == 0, z3.RealVal(0), z3.If(R(a_) <= R(b_), R(a_), R(b_)))
    return garea, densites, cov


def law_hh93(kind, sp, a, eb, yld):
    garea, densites, cov = hh93_common()
    T, Td = P("Tgas"), P("Tdust")
    A = mass_number(sp) if isinstance(sp, str) and sp else 0
    zeta = fdiv(P("zeta_cr"), C["zism"])
    vib = lambda: SQRT(fdiv(mul(F("2.0"), P("sites"), C["kerg"], eb), mul(C["pi"], C["pi"], C["amu"], Fraction(A))))
    if kind == 7:
        return mul(P("opt_frz"), a, C["pi"], P("rG"), P("rG"), P("gdens"), SQRT(fdiv(mul(F("8.0"), C["kerg"], T), mul(C["pi"], C["amu"], Fraction(A)))))
    if kind == 8:
        return mul(P("opt_thd"), cov, P("nMono"), densites, vib(), EXP(fdiv(fneg(eb), Td)))
    if kind == 9:
        return mul(P("opt_crd"), cov, P("duty"), P("nMono"), densites, zeta, vib(), EXP(fdiv(fneg(eb), P("Tcr"))))
    if kind == 10:
        phot = fadd(mul(P("G0"), C["habing"], EXP(fmul(fneg(P("Av")), F("3.02")))), fmul(C["crphot"], zeta))
        return mul(P("opt_uvd"), cov, phot, yld, P("nMono"), garea)
    if kind == 20:
        return mul(C["pi"], P("rG"), P("rG"), SQRT(fdiv(fdiv(fdiv(mul(F("8.0"), C["kerg"], T), C["pi"]), C["amu"]), C["meu"])))
    if kind in (13, 14):
        # surface two-body reaction (Hasegawa, Herbst & Leung 1992): sp = (species1, species2), a = activation barrier
        s1, s2 = sp
        eb1, eb2 = eb
        A1, A2 = Fraction(mass_number(s1)), Fraction(mass_number(s2))
        gdens, hop, Tdv = P("gdens"), P("hop"), P("Tdust")
        unisites = mul(P("sites"), mul(F("4"), C["pi"], P("rG"), P("rG")))
        freq = SQRT(fdiv(mul(F("2.0"), P("sites"), C["kerg"]), mul(fmul(C["pi"], C["pi"]), C["amu"])))
        quan = mul(F("-2.0"), fdiv(P("barr"), C["hbar"]), SQRT(mul(F("2.0"), C["amu"], C["kerg"])))

        def hopping(ebi, Ai):
            fr = fmul(freq, SQRT(fdiv(ebi, Ai)))
            diff = fdiv(fmul(fr, EXP(fdiv(fmul(fneg(ebi), hop), Tdv))), unisites)
            tun = fdiv(fmul(fr, EXP(fmul(quan, SQRT(mul(hop, Ai, ebi))))), unisites)
            return diff, tun

        mx = lambda x, y: z3.If(R(x) >= R(y), R(x), R(y))
        d1, q1 = hopping(eb1, A1)
        d2, q2 = hopping(eb2, A2)
        light = lambda n: n in ("GH", "GH2")
        r1 = mx(d1, q1) if light(s1) else R(d1)
        r2 = mx(d2, q2) if light(s2) else R(d2)
        kappa = EXP(fdiv(fneg(a), Tdv))
        kquan = EXP(fmul(quan, SQRT(fmul(fdiv(fmul(A1, A2), A1 + A2), a))))
        barrier = mx(kappa, kquan) if (light(s1) or light(s2)) else R(kappa)
        rate = barrier * (r1 + r2) * R(fdiv(POW(fmul(P("nMono"), densites), F("2.0")), gdens)) * cov * cov
        if kind == 14:
            rate = P("opt_rcd") * P("branch") * rate
        return rate
    if kind == 6:
        e2 = POW(C["echarge"], F("2.0"))
        return mul(a, C["pi"], P("rG"), P("rG"), P("gdens"), SQRT(fdiv(mul(F("8.0"), C["kerg"], T), mul(C["pi"], C["amu"], Fraction(A)))),
                   fadd(Fraction(1), fdiv(fdiv(fdiv(e2, P("rG")), C["kerg"]), T)),
                   fadd(Fraction(1), SQRT(fdiv(fmul(F("2.0"), e2), fadd(mul(P("rG"), C["kerg"], T), fmul(F("2.0"), e2))))))
    return None


# corpus ----------------------------------------------------------------------
def ucl_lines():
    L = []
    add = lambda r, code, p, a="1.0", c="0.0": L.append({"reactants": [r], "products": p, "a": a, "b": "0.0", "c": c, "tmin": "0.0", "tmax": "10000.0", "code": code, "idx": len(L) + 1})
    add("CO", "FREEZE", ["#CO"], a="0.9")
    add("H2O", "FREEZE", ["#H2O"])
    add("H3O+", "FREEZE", ["#H2O", "H"], a="1.0")
    add("C+", "FREEZE", ["#C"], a="0.5")
    add("E-", "FREEZE", [], a="1.0")
    add("C-", "FREEZE", ["#C"], a="0.8")  # an anion: charged like a cation for the accretion law
    for sp, gas in (("#CO", "CO"), ("#H2O", "H2O"), ("#CH4", "CH4"), ("#C", "C")):
        for code in ("DESOH2", "DESCR", "DEUVCR"):
            add(sp, code, [gas], c="1300.0")
    add("CH4", "FREEZE", ["#CH4"])
    # gas-phase lines so that H and H2 are species of the network
    L.append({"reactants": ["H", "H"], "products": ["H2"], "a": "1.0e-17", "b": "0.0", "c": "0.0", "tmin": "0", "tmax": "0", "code": "", "idx": len(L) + 1})
    return L


def ucl_therm_lines():
    return [{"reactants": [sp], "products": [g], "a": "1.0", "b": "0.0", "c": "1300.0", "tmin": "0.0", "tmax": "10000.0", "code": "THERM", "idx": 100 + k} for k, (sp, g) in enumerate((("#CO", "CO"), ("#H2O", "H2O"), ("#CH4", "CH4")))]


def leeds_lines():
    L = []
    add = lambda rs, ps, code, a="1.00E+00": L.append({"reactants": rs, "products": ps, "a": a, "b": "0.00", "c": "0.0", "tmin": "0", "tmax": "0", "code": code, "idx": len(L) + 1})
    for g in ("CO", "H2O", "CH4", "H"):
        add([g], ["G" + g], 7, a="1.00E+00" if g != "CO" else "9.00E-01")
        add(["G" + g], [g], 8)
        add(["G" + g], [g], 9)
        add(["G" + g], [g], 10)
    add(["C+", "GRAIN-"], ["C", "GRAIN0"], 6)
    add(["H3O+", "GRAIN-"], ["H2O", "H", "GRAIN0"], 6, a="5.00E-01")
    # the grain written first (the order the native format's sorted writer produces for H+, He+, HCO+ ...)
    add(["GRAIN-", "H+"], ["H", "GRAIN0"], 6)
    add(["GRAIN-", "HCO+"], ["H", "CO", "GRAIN0"], 6, a="7.00E-01")
    add(["e-", "GRAIN0"], ["GRAIN-"], 20)
    # surface two-body (13) and reactive desorption (14): every order of light (GH, GH2) and heavy partners; alpha = barrier (K)
    for k, (x, y_, prod) in enumerate([("GH", "GCO", "GHCO"), ("GCO", "GH", "GHCO"), ("GH", "GH", "GH2"), ("GH2", "GO", "GH2O"), ("GO", "GH2", "GH2O"), ("GO", "GCO", "GCO2"), ("GH2", "GH", "GH2O")]):
        add([x, y_], [prod], 13, a=["0.00E+00", "2.50E+03", "5.00E+02"][k % 3])
        add([x, y_], [prod[1:]], 14, a=["1.00E+03", "0.00E+00", "2.50E+03"][k % 3])
    return L


CASES = [
    ("ucl-rr07", "uclchem", "rr07", ucl_lines, {}),
    ("ucl-rr07x", "uclchem", "rr07x", lambda: ucl_lines() + ucl_therm_lines(), {}),
    ("ucl-rr07x-user", "uclchem", "rr07x", lambda: ucl_lines() + ucl_therm_lines(), {"binding": {"#CO": 855.0, "#CH4": 1234.5}, "yields": {"#CO": 0.0027, "#H2O": 0.5, "#CH4": 2.0e-5}}),
    ("leeds-hh93", "leeds", "hh93", leeds_lines, {}),
    ("leeds-hh93i", "leeds", "hh93i", leeds_lines, {}),
    ("leeds-hh93-user", "leeds", "hh93", leeds_lines, {"binding": {"GCO": 855.0}, "yields": {"GCO": 0.0027, "GH2O": 0.5, "GCH4": 1.8e-4}}),  # yields above and below the model's default 1e-3
    ("leeds-hh93i-user", "leeds", "hh93i", leeds_lines, {"binding": {"GH2O": 4800.0}, "yields": {"GCO": 2.0e-5, "GH": 0.02}}),
    # the user's tables are changed *after* the network has been built and rendered once: the next rendering uses them
    ("ucl-rr07x-user-late", "uclchem", "rr07x", lambda: ucl_lines() + ucl_therm_lines(), {"binding": {"#CO": 855.0, "#CH4": 1234.5}, "yields": {"#CO": 0.0027, "#H2O": 0.5}, "late": True}),
    ("leeds-hh93-user-late", "leeds", "hh93", leeds_lines, {"binding": {"GCO": 855.0}, "yields": {"GCO": 0.0027, "GH2O": 0.5}, "late": True}),
]
def table_species(n=36):
    """deterministic sample of RATE12 binding-energy species made of the elements of MASS (thorough tier)"""
    ok = []
    for name in sorted(EB):
        rest = re.sub(r"([A-Z][a-z]?)(\d*)", lambda m: "" if m.group(1) in MASS else "?", name)
        if rest == "" and name not in ("CO", "H2O", "CH4", "C", "H", "H2"):
            ok.append(name)
    step = max(1, len(ok) // n)
    return ok[::step][:n]


def ucl_many_lines():
    L = []
    add = lambda r, code, p, a="1.0", c="0.0": L.append({"reactants": [r], "products": p, "a": a, "b": "0.0", "c": c, "tmin": "0.0", "tmax": "10000.0", "code": code, "idx": len(L) + 1})
    for g in table_species():
        add(g, "FREEZE", ["#" + g], a="0.7")
        for code in ("DESOH2", "DESCR", "DEUVCR", "THERM"):
            add("#" + g, code, [g], c="1300.0")
    L.append({"reactants": ["H", "H"], "products": ["H2"], "a": "1.0e-17", "b": "0.0", "c": "0.0", "tmin": "0", "tmax": "0", "code": "", "idx": len(L) + 1})
    return L


def leeds_many_lines():
    L = []
    add = lambda rs, ps, code, a="1.00E+00": L.append({"reactants": rs, "products": ps, "a": a, "b": "0.00", "c": "0.0", "tmin": "0", "tmax": "0", "code": code, "idx": len(L) + 1})
    for g in table_species():
        add([g], ["G" + g], 7, a="8.00E-01")
        for code in (8, 9, 10):
            add(["G" + g], [g], code)
    return L


THOROUGH_CASES = [
    ("ucl-rr07x-table", "uclchem", "rr07x", ucl_many_lines, {}),
    ("leeds-hh93-table", "leeds", "hh93", leeds_many_lines, {}),
    ("leeds-hh93i-table-user", "leeds", "hh93i", leeds_many_lines, {"binding": {"GHCN": 2345.0, "GNH3": 4321.0}, "yields": {"GHCN": 0.02}}),
]


def all_cases(tier):
    return CASES + (THOROUGH_CASES if tier == "thorough" else [])


REFUSE = [
    ("ucl-rr07-THERM", "uclchem", "rr07", lambda: ucl_lines() + ucl_therm_lines()),
    ("leeds-rr07-type8", "leeds", "rr07", lambda: [l for l in leeds_lines() if l["code"] in (7, 8)]),
    ("leeds-rr07x-type6", "leeds", "rr07x", lambda: [l for l in leeds_lines() if l["code"] in (6, 7)]),
]


def analyse(name, fmt, model, mk, user, tier):
    res = {"case": name, "ok": [], "unknown": [], "viol": [], "errors": [], "notes": [], "samples": [], "solver_s": 0.0, "programs": 0, "functions": [], "replays": 0}
    try:
        _analyse(name, fmt, model, mk, user, tier, res)
    except Exception as e:
        res["errors"].append(f"{type(e).__name__}: {e}\n{traceback.format_exc()[-1500:]}")
    return res


def _spec(fmt, model, lines, user):
    enc = encoders.ENC[fmt]
    text = "\n".join(enc(r) for r in lines) + "\n"
    pre = []
    ops = []
    if user and user.get("late"):
        ops.append({"op": "exec", "code": "import tempfile, shutil\n_d = tempfile.mkdtemp()\nnet.to_code(path=_d)\nshutil.rmtree(_d, ignore_errors=True)\n"
                    "from naunet.chemistrydata import update_binding_energy, update_photon_yield\n"
                    f"update_binding_energy({user.get('binding', {})!r})\nupdate_photon_yield({user.get('yields', {})!r})\n"})
    elif user:
        skw = "dict(surface_prefix='G')" if fmt == "leeds" else "dict()"
        pre.append({"op": "exec", "code": "from naunet.chemistrydata import update_binding_energy, update_photon_yield\n"
                    f"update_binding_energy({user.get('binding', {})!r})\nupdate_photon_yield({user.get('yields', {})!r})\n"})
    return {"files": [{"name": f"net.{fmt}", "content": text}], "pre": pre, "ops": ops, "network": {"filelist": f"net.{fmt}", "fileformats": fmt, "grain_model": model}, "targets": [dict(proj.TARGETS["dense"])]}


def _analyse(name, fmt, model, mk, user, tier, res):
    lines = mk()
    p = proj.render(name, _spec(fmt, model, lines, user))
    tdir = "cvode_dense"
    if not p.ok or not p.target_ok(tdir):
        res["errors"].append(f"generator refused a supported (format, model): {p.meta.get('error') or p.meta['targets'].get(tdir)}")
        return
    res["programs"] += 1
    L = ode.load(p, tdir, "rates", extra=("naunet_constants.cpp",), lift=True)
    if L.errors:
        tu, err = next(iter(L.errors.items()))
        first = next((l for l in err.splitlines() if "error:" in l), err[:200])
        res["unknown"].append((f"{name}:compile", first[-220:]))
        res["notes"].append(f"{tu} does not compile: {first[-200:]} (C10's subject)")
        return
    macros = p.macros(tdir)
    NEQ = macros["NEQUATIONS"]
    y = [z3.Real(f"y{i}") for i in range(NEQ)]
    slots = {s["name"]: macros["IDX_" + s["alias"]] for s in p.meta["species"]}
    run = ode.run_rates(p, tdir, lifted=L, yvals=y)
    res["functions"].append(f"{tdir}:EvalRates[{fmt},{model}]")
    s = z3.Solver()
    s.set("timeout", 60_000)
    s.add(P("Tgas") > 0, P("nH") > 0, P("rG") > 0, P(MANT) >= 0)
    s.add(inv_axioms())
    idx_of = {}
    for pos, r in enumerate(p.meta["reactions"]):
        idx_of.setdefault(r["idxfromfile"], []).append(pos)
    if fmt == "uclchem":
        idx_of = {r["idx"]: [pos] for pos, r in enumerate(lines)} if len(p.meta["reactions"]) == len(lines) else {}
    t0 = time.time()
    gd = ("gdens" in run.data)
    for r in lines:
        pos = idx_of.get(r["idx"], [])
        if len(pos) != 1 or r["code"] == "":
            continue
        i = pos[0]
        sp = r["reactants"][0]
        gas = sp[1:] if sp[0] in "#G" and sp not in ("GRAIN0", "GRAIN-") else sp
        key_sp = sp
        eb = Fraction(0)
        yld = None
        if sp[0] in "#G" and not sp.startswith("GRAIN"):
            eb = F(user.get("binding", {}).get(sp)) if user.get("binding", {}).get(sp) else EB.get(gas)
            y_user = user.get("yields", {}).get(sp)
            yld = F(y_user) if y_user else (F("0.1") if model.startswith("rr07") else F("1e-3"))
        a = F(r["a"])
        if model.startswith("rr07"):
            ref = law_rr07(r["code"], sp, a, eb, yld, extended=(model == "rr07x"))
        else:
            spn = next((x for x in r["reactants"] if not x.startswith("GRAIN")), sp)
            if r["code"] in (13, 14):
                s1, s2 = r["reactants"]
                ebs = tuple(F(user.get("binding", {}).get(x)) if user.get("binding", {}).get(x) else EB.get(x[1:]) for x in (s1, s2))
                ref = law_hh93(r["code"], (s1, s2), a, ebs, None) if all(e is not None for e in ebs) else None
            else:
                ref = law_hh93(r["code"], spn, a, eb, yld)
        if ref is None:
            continue
        # names the reference uses for state-dependent quantities
        subs = []
        if "H" in slots:
            subs.append((P("y_H"), y[slots["H"]]))
        if not gd:
            gsp = [y[slots[g["name"]]] for g in p.meta["species"] if g["is_grain"]]
            if gsp:
                subs.append((P("gdens"), sum(gsp[1:], gsp[0])))
        ref = z3.substitute(R(ref), *subs) if subs else R(ref)
        if model.startswith("rr07") and r["code"] == "THERM":
            ref = z3.substitute(ref, (P("Tgas"), P("Tgas")))
        k = run.kout[i]
        kin = run.kinit[i]
        kk = R(k) if k is not None else kin
        nm = f"{name}:k[{i}] {'+'.join(r['reactants'])} code {r['code']!r}"
        key = f"{fmt}:{model}:code={r['code']!r}:{sp}"
        rr = str(s.check(z3.And(kk != ref, kk != kin)))
        XC.sample(s, [z3.And(kk != ref, kk != kin)], rr, nm)
        if rr == "unsat":
            res["ok"].append(nm)
            if len(res["samples"]) < 2:
                res["samples"].append({"obligation": nm, "emitted": str(z3.simplify(kk))[:200], "verdict": "unsat"})
        elif rr == "sat":
            mdl = s.model()  # (before the next check: an `unknown` there would leave no model)
            # the generator prints quotients such as E_b/A as one double literal: identify rational constants
            # *inside libm calls* with their nearest double on both sides and ask again (IEEE rounding of
            # literals is outside the claim); only a `sat` that survives this is replayed
            kk2, ref2 = snap_libm_constants(z3.simplify(kk)), snap_libm_constants(z3.simplify(ref))
            rr2 = str(s.check(z3.And(kk2 != ref2, kk2 != kin))) if (not kk2.eq(z3.simplify(kk)) or not ref2.eq(z3.simplify(ref))) else "sat"
            if rr2 == "unsat":
                res["ok"].append(nm)
                res["notes"].append(f"{nm}: equal after rounding constant arguments of libm calls to double")
            else:
                _replay(p, tdir, res, mdl, i, ref, key, nm, r, NEQ, y, eb)
        else:
            res["unknown"].append((nm, "solver " + rr))
    res["solver_s"] += time.time() - t0


def snap_libm_constants(t):
    """replace rational constants that are direct arguments of uninterpreted functions by the nearest double"""
    memo = {}

    def go(e):
        k = e.get_id()
        if k in memo:
            return memo[k]
        if z3.is_app(e) and e.num_args():
            ch = [go(c) for c in e.children()]
            if e.decl().kind() == z3.Z3_OP_UNINTERPRETED:
                ch = [z3.RealVal(str(Fraction(float(Fraction(c.numerator_as_long(), c.denominator_as_long()))))) if z3.is_rational_value(c) else c for c in ch]
            out = e.decl()(*ch)
        else:
            out = e
        memo[k] = out
        return out

    return go(t)


def _replay(p, tdir, res, model, i, ref, key, nm, r, NEQ, ysyms, eb=None):
    import random

    rnd = random.Random(i)
    try:
        nat = native.NativeEval(p, tdir, real_rates=True)
        fields = p.data_fields(tdir)
        for attempt in range(8):
            # physically meaningful points: the generated defaults of NaunetData, cold dust for the tunnelling terms
            env = {f: (float(d) if d else rnd.uniform(0.5, 3.0)) for f, d in fields}
            env.update({"Tgas": rnd.uniform(8, 200), "Tdust": rnd.choice([8.0, 10.0, 12.0, 15.0, 25.0, 40.0]), "nH": 1e4, "gdens": 7.6e-9, "zeta": 1.3e-17 * rnd.uniform(0.5, 3), "zeta_cr": 2.6e-17, "eb_uvd": 1e4, "eb_crd": 1e4, "eb_h2d": 1e4})
            if attempt % 2:
                env.update({"G0": rnd.uniform(0.5, 3.0), "Av": rnd.uniform(0.1, 5.0)})
            # desorption thresholds: the side of each guard the solver's model chose first, then every
            # threshold independently below / at / above the species' binding energy
            if eb:
                ebf = float(Fraction(eb))
                for lim in ("eb_uvd", "eb_crd", "eb_h2d"):
                    if attempt < 2:
                        try:
                            side = z3.is_true(model.eval(P(lim) >= R(eb), model_completion=True))
                        except z3.Z3Exception:
                            side = True
                        env[lim] = ebf * (2.0 if side else 0.5) if ebf > 0 else (1e4 if side else -1.0)
                    else:
                        env[lim] = rnd.choice([0.5 * ebf, ebf, 2.0 * ebf]) if ebf > 0 else 1e4
            yv = [rnd.uniform(1e-3, 1.0) for _ in range(NEQ)]
            # thin and thick mantles: the ice abundances (their sum is the mantle density) over 21 decades
            ice_ = [p.macros(tdir)["IDX_" + s_["alias"]] for s_ in p.meta["species"] if s_["is_surface"]]
            scale = [1.0, 1e-12, 1e6, 1e-6, 1e3, 1e-9, 1e9, 1e-3][attempt]
            for j in ice_:
                yv[j] *= scale
            out = nat.eval(yv, data=env)
            res["replays"] += 1
            got = out["k"].get(i)
            full = dict(env)
            for j, v in enumerate(yv):
                full[f"y{j}"] = v
            # the opaque mantle density of the harness is the real helper natively: sum of ice abundances
            ice = [p.macros(tdir)["IDX_" + s_["alias"]] for s_ in p.meta["species"] if s_["is_surface"]]
            full[MANT] = sum(yv[j] for j in ice)
            try:
                exp = evalf(ref, full)
            except EvalError as e:
                res["unknown"].append((nm, f"sat; law not evaluable natively: {e}"))
                return
            if got is None or not native.close(got, exp, 1e-8, 1e-300):
                res["viol"].append({"key": key, "what": f"generated grain rate differs from the dust-model law ({key}): emitted {got!r}, law {exp!r}", "replay": {"case": res["case"], "reaction": r, "point": {k_: v_ for k_, v_ in full.items() if not k_.startswith("y")}, "y": yv, "native": got, "law": exp}})
                return
        res["unknown"].append((nm, "sat with uninterpreted libm but the native build agrees with the law at 8 physically scaled points, thin and thick mantles (incomplete congruence reasoning)"))
    except native.NativeError as e:
        res["unknown"].append((nm, f"sat; native replay unavailable: {str(e)[:200]}"))


def refuse(name, fmt, model, mk):
    res = {"case": name, "ok": [], "unknown": [], "viol": [], "errors": [], "notes": [], "samples": [], "solver_s": 0.0, "programs": 0, "functions": [], "replays": 0}
    try:
        p = proj.render(name, _spec(fmt, model, mk(), {}))
        tdir = "cvode_dense"
        if p.ok and p.target_ok(tdir):
            res["viol"].append({"key": f"refuse:{name}", "what": f"dust model {model} does not implement a requested process but the generator produced a rate instead of refusing", "replay": {"case": name, "format": fmt, "model": model}})
        else:
            res["ok"].append(f"refuse:{name}")
            res["samples"].append({"case": name, "refused_with": str(p.meta.get("error") or p.meta.get("targets", {}).get(tdir, {}).get("error"))[:160]})
    except Exception as e:
        res["errors"].append(f"{type(e).__name__}: {e}")
    return res


def _work_inner(a):
    if a[0] == "refuse":
        n, f, m, mk = REFUSE[a[1]]
        return refuse(n, f, m, mk)
    n, f, m, mk, u = all_cases(a[2])[a[1]]
    return analyse(n, f, m, mk, u, a[2])


def _work(a):
    tier = a[-1] if isinstance(a[-1], str) and a[-1] in ("quick", "thorough") else next((x for x in a if x in ("quick", "thorough")), "quick")
    XC.__init__(every=15 if tier == "thorough" else 40, first=1, cap=10 if tier == "thorough" else 3)
    r = _work_inner(a)
    if isinstance(r, dict):
        r["xcheck"] = XC.summary()
    return r


def main(pid, tier):
    chk = Check("C11", tier)
    proj.ensure_venv()
    work = [("case", i, tier) for i in range(len(all_cases(tier)))] + [("refuse", i, tier) for i in range(len(REFUSE))]
    ctx = mp.get_context("fork")
    with cf.ProcessPoolExecutor(max_workers=10, mp_context=ctx) as ex:
        results = list(ex.map(_work, work))
    for r in results:
        chk.programs += r["programs"]
        chk.solver_s += r["solver_s"]
        chk.replays_done += r["replays"]
        chk.functions.update(r["functions"])
        chk.xc.merge(r.get("xcheck"))
        for n in r["ok"]:
            chk.ok(n)
            chk.nontrivial.add(n)
        for n, w in r["unknown"]:
            chk.unknown(n, w)
        for v in r["viol"]:
            chk.violation(v["key"], v["what"], v["replay"])
        for e in r["errors"]:
            chk.harness_error(f"{r['case']}: {e}")
        chk.notes += [f"{r['case']}: {n}" for n in r["notes"]]
        for s_ in r["samples"]:
            chk.sample(s_)
    chk.bounds = {"cases": [c[0] for c in all_cases(tier)], "table_species_in_thorough": table_species(), "refusals": [c[0] for c in REFUSE], "processes": {"rr07/rr07x (UCLCHEM format)": ["FREEZE neutral/ion/electron", "DESOH2", "DESCR", "DEUVCR", "THERM (rr07x)"], "hh93/hh93i (Leeds format)": ["6 recombination", "7 accretion", "8 thermal", "9 cosmic-ray", "10 photo", "20 electron capture", "13 surface two-body and 14 reactive desorption for 7 reactant orders of light/heavy partners"]},
                  "species": ["CO", "H2O", "CH4", "C", "H", "C+", "H3O+", "e-"], "species_data": "RATE12 table and user overrides of binding energy / yield"}
    chk.assumptions = ["libm uninterpreted; GetMantleDens opaque (non-negative); Tgas, nH, rG > 0", "physical constants are read as the project defines them (their values are not part of the property)",
                       "multi-group grains are outside the encoded set", "mass numbers and RATE12 binding energies are read independently of naunet"]
    chk.extra["repo_fingerprint"] = proj.repo_fingerprint()
    return chk.finish(rule="one obligation = one z3 query 'exists parameters: k[i] assigned and != dust-model law' per (format, model, process, species); refusals are ground obligations")
