"""C05 (gas-phase rate laws) and C06 (temperature windows): symbolic execution of
the compiled EvalRates of projects built from encoder-written reaction files."""
from __future__ import annotations

import concurrent.futures as cf
import itertools
import multiprocessing as mp
import os
import random
import zlib
import re
import traceback
from fractions import Fraction

import z3

from .. import encoders, harness as H, native, ode, proj
from ..evalz3 import EvalError, evalf
from ..irsym import Inconclusive, R, fdiv, fmul, fsub, inv_axioms, is_sym, reciprocal
from ..report import Check

F = lambda s: Fraction(float(s))  # exactly the double the literal denotes


# --------------------------------------------------------------------------- laws (published formulae)
def EXP(x):
    return H.UF1("exp", x)


def SQRT(x):
    return H.UF1("sqrt", x)


def POW(x, y):
    return H.UF2("pow", x, y)


def mul(*xs):
    r = Fraction(1)
    for x in xs:
        r = fmul(r, x)
    return r


def P(name):
    return z3.Real(name)


def twobody(a, b, c):
    T = P("Tgas")
    return mul(a, POW(fdiv(T, F("300.0")), b), EXP(fdiv(-c, T)))


def photo(a, c):
    return mul(a, EXP(fmul(-c, P("Av"))))


def crphot(a, b, c, zfac=Fraction(1)):
    T = P("Tgas")
    return fdiv(mul(a, zfac, POW(fdiv(T, F("300.0")), b), c), fsub(Fraction(1), P("omega")))


def ionpol1(a, b, c):
    T = P("Tgas")
    return mul(a, b, F("0.62") + fmul(mul(F("0.4767"), c), SQRT(fdiv(F("300.0"), T))))


def ionpol2(a, b, c):
    T = P("Tgas")
    q = fdiv(F("300.0"), T)
    return mul(a, b, Fraction(1) + fmul(mul(F("0.0967"), c), SQRT(q)) + fdiv(mul(c, c, q), F("10.526")))


ZISM = F("1.3e-17")


def law(fmt, code, a, b, c):
    """the source database's law for (format, type code); None = not a gas-phase law checked here"""
    if fmt == "kida":
        return {1: lambda: mul(a, P("zeta")), 2: lambda: photo(a, c), 3: lambda: twobody(a, b, c), 4: lambda: ionpol1(a, b, c), 5: lambda: ionpol2(a, b, c)}[code]()
    if fmt == "umist":
        if code == "PH":
            return photo(a, c)
        if code == "CP":
            return a
        if code == "CR":
            return crphot(a, b, c)
        return twobody(a, b, c)
    if fmt == "leeds":
        zf = fdiv(P("zeta_cr") + P("zeta_xr"), ZISM)
        if code == 1:
            return twobody(a, b, c)
        if code == 2:
            return mul(a, zf)
        if code in (3, 11):
            return crphot(a, b, c, zf)
        if code in (4, 12):
            return mul(P("G0"), photo(a, c))
        if code == 5 or 15 <= code <= 19:
            return Fraction(0)
    if fmt == "uclchem":
        zf = fdiv(P("zeta"), ZISM)
        if code == "":
            return twobody(a, b, c)
        if code == "CRP":
            return mul(a, zf)
        if code == "CRPHOT":
            return crphot(a, b, c, zf)
        if code == "PHOTON":
            return fdiv(mul(P("G0"), photo(a, c)), F("1.7"))
    if fmt == "naunet":
        return {100: lambda: twobody(a, b, c), 101: lambda: mul(a, P("zeta")), 102: lambda: photo(a, c), 110: lambda: ionpol1(a, b, c), 111: lambda: ionpol2(a, b, c), 120: lambda: crphot(a, b, c)}[code]()
    return None


# --------------------------------------------------------------------------- corpus of lines
CODES = {
    "kida": [(1, "CR"), (2, "Photon"), (3, None), (4, None), (5, None)],
    "umist": [("NN", None), ("IN", None), ("DR", None), ("PH", "PHOTON"), ("CP", "CRP"), ("CR", "CRPHOT")],
    "leeds": [(1, None), (2, "CRP"), (3, "CRPHOT"), (4, "PHOTON"), (5, "XRAY"), (15, None), (19, None)],
    "uclchem": [("", None), ("CRP", None), ("CRPHOT", None), ("PHOTON", None)],
    "naunet": [(100, None), (101, "CR"), (102, "PHOTON"), (110, None), (111, None), (120, "CRPHOT")],
}

MAG = {"a": "2.5e-10", "b": "0.5", "c": "3.0"}
LEEDS_MAG = {"a": "2.5E-10", "b": "0.5", "c": "3.0"}


def lit(fmt, which, sign):
    m = (LEEDS_MAG if fmt == "leeds" else MAG)[which]
    if sign == 0:
        return "0.0" if fmt != "leeds" else {"a": "0.00E+00", "b": "0.00", "c": "0.0"}[which]
    return m if sign > 0 else "-" + m


# literal *shapes* (how Python prints the coefficient into the C expression): leading
# "0.0", several integer digits, exponent forms, 17 significant digits ...
SHAPES = [("0.03", "-0.03", "0.05"), ("-0.04", "0.02", "-0.07"), ("0.001", "-0.0001", "0.00012"), ("12.5", "-100.0", "1234.5"), ("1e-05", "-1e-05", "2e-05"),
          ("0.1", "-0.1", "0.30000000000000004"), ("1e+16", "-1e+16", "1e+16"), ("-0.05", "0.0", "0.02"), ("7.0", "-0.009", "-0.05"),
          # integer-valued exponents and barriers of either sign (generators like to special-case small integers)
          ("2.0e-10", "-1.0", "2.0"), ("1.0", "-2.0", "-3.0"), ("4.0", "-3.0", "1.0"), ("1.5e-9", "1.0", "-2.0"), ("2.0", "3.0", "3.0"),
          # unit and zero coefficients together (every factor of the law is one a generator may want to leave out)
          ("1.0", "0.0", "0.0"), ("1.0", "1.0", "0.0"), ("1.0", "0.0", "1.0"), ("-1.0", "0.0", "0.0"), ("1.0", "1.0", "1.0")]
EXTREME = SHAPES + [("1e+20", "5e-324", "3.0"), ("1.7976931348623157e+308", "-0.5", "1e-300"), ("3.0", "2.0", "-1.0"), ("-5e-324", "1e+20", "-1e+20"), ("1E-9", "-2.50E+00", "+4.0")]
LEEDS_EXTREME = [("2.00E-10", "-1.00", "2.0"), ("1.00E+00", "-2.00", "-3.0"), ("4.00E+00", "-3.00", "1.0"), ("1.50E-09", "1.00", "-2.0"), ("0.03", "-0.03", "0.05"), ("-0.04", "0.02", "-0.07"), ("0.001", "-0.0001", "0.00012"), ("12.5", "-100.0", "1234.5"), ("1E-05", "-1E-05", "2E-05"), ("-0.05", "0.0", "0.02"), ("7.0", "-0.009", "-0.05"), ("1.0E+20", "5.0E-324", "3.0"), ("3.0", "2.0", "-1.0"), ("-5E-324", "1.0E+20", "-1.0E+20"),
                 ("1.00E+00", "0.00", "0.0"), ("1.00E+00", "1.00", "0.0"), ("1.00E+00", "0.00", "1.0"), ("1.00E+00", "1.00", "1.0")]

SPECIES_VARIANTS = ["C", "O", "N", "H", "OH", "C2", "HCO", "NO"]
WINDOWS = [("10", "800"), ("0", "0"), ("-9999", "9999"), ("50", "-1"), ("-1", "300"), ("100", "100")]


KROME_WINDOWS = [("NONE", "NONE", "-1", "-1"), ("10", "NONE", "10", "-1"), ("NONE", ".LE.5.5e3", "-1", "5.5e3"), (">5.5e3", "NONE", "5.5e3", "-1"),
                 ("1d2", "1d4", "1e2", "1e4"), (".GE.20", "<300", "20", "300"), ("N/A", ".LT.1.5d3", "-1", "1.5e3"), ("", "", "-1", "-1"), ("2.73", "3.e4", "2.73", "3.e4"),
                 # numbers that begin with the decimal point, bare and behind each operator spelling
                 (".5d1", "NONE", "5", "-1"), (">.25e2", ".LE..75d4", "25", "7500"), (".GE..5e1", "<.116d4", "5", "1160"), (".GT..5", ".LT..75e3", "0.5", "750")]


def random_literals(fmt, rnd, n):
    """n coefficient triples as a database could print them: random magnitudes over 60 decades and random
    spellings (repr, fixed, exponent with 1-3 digits, integer-valued) -- thorough tier"""
    def one(lo, hi, leeds_fmt):
        v = rnd.choice([-1, 1]) * 10 ** rnd.uniform(lo, hi) * rnd.choice([1.0, 1.0, rnd.uniform(1, 9.99)])
        if fmt == "leeds":
            return leeds_fmt % v
        style = rnd.randrange(5)
        if style == 0:
            return repr(v)
        if style == 1:
            return "%.3e" % v
        if style == 2:
            return "%.2E" % v
        if style == 3:
            return repr(float(round(v))) if abs(v) < 1e15 else repr(v)
        return "%.6g" % v

    out = []
    for _ in range(n):
        if fmt == "leeds":
            # fixed columns of 8 / 9 / 10 characters: alpha unsigned
            out.append(("%.2E" % abs(float(one(-30, 3, "%.2E"))), one(-3, 1.2, "%.2f"), one(-2, 4.5, "%.1f")))
        else:
            out.append((one(-30, 3, "%.2E"), one(-3, 1.2, "%.2f"), one(-2, 4.5, "%.1f")))
    return out


def build_lines(fmt, thorough, seed):
    """list of abstract reactions (with literal strings) for one format"""
    if fmt == "krome":
        out = []
        for k, (lo, hi, elo, ehi) in enumerate(KROME_WINDOWS):
            out.append({"reactants": ["C", "CH"], "products": ["C2", "H"], "a": "1.0", "b": "0.0", "c": "0.0", "tmin": lo, "tmax": hi, "win": (elo, ehi), "idx": k + 1, "code": None,
                        "rate": f"{k + 1}.5d-10*(T32)**(-0.5)"})
        return out
    out = []
    idx = 0
    rnd = random.Random(seed + zlib.crc32(fmt.encode()) % 1000)  # not hash(): independent of PYTHONHASHSEED
    signs = list(itertools.product((1, 0, -1), repeat=3))
    for code, marker in CODES[fmt]:
        combos = signs if (thorough or code in (3, "NN", 1, "", 100)) else rnd.sample(signs, 9) + [(1, 1, 1), (-1, -1, -1), (0, 0, 0)]
        trip = [(lit(fmt, "a", sa), lit(fmt, "b", sb), lit(fmt, "c", sc)) for sa, sb, sc in combos]
        trip += (LEEDS_EXTREME if fmt == "leeds" else EXTREME)
        if thorough:
            trip += random_literals(fmt, rnd, 30)
        for k, (a, b, c) in enumerate(trip):
            idx += 1
            reactants = ["C", "CH"] if marker is None else ["CH", marker]
            if fmt == "uclchem" and code:
                reactants = ["CH"]
            w = WINDOWS[k % len(WINDOWS)]
            if fmt == "umist":
                w = WINDOWS[k % len(WINDOWS)]
            r = {"reactants": reactants, "products": ["C2", "H"] if marker is None and not (fmt == "uclchem" and code) else ["C", "H"], "a": a, "b": b, "c": c,
                 "tmin": w[0], "tmax": w[1], "idx": idx, "code": code}
            if fmt == "kida":
                r["tmin"], r["tmax"] = str(int(float(w[0]))), str(int(float(w[1])))
                # the itype column (1 direct cosmic-ray process, 2 cosmic-ray-induced photo-process, 3 photo-process, 4-8
                # bimolecular classes) does not enter the formula
                r["itype"] = {1: (1, 2)[k % 2], 2: 3}.get(code, (4, 5, 6, 7, 8)[k % 5])
            if fmt == "umist" and k % 4 == 1:
                # an entry tabulated with further fits (NE = 2 or 3) for other temperature ranges: one reaction per line,
                # coefficients and window of the first block
                hi_ = w[1] if float(w[1]) > 0 else "300"
                r["fits"] = [("7.77e-09", "-0.39", "39.4", hi_, "3000")] + ([("1.11e-08", "1.5", "-2.0", "3000", "41000")] if k % 8 == 1 else [])
            out.append(r)
    # the law of a type code does not depend on *which* species reacts, except for the documented
    # self-shielded molecules (H2, CO, N2): one generic row per code for reactants whose names are
    # sub- or superstrings of those
    for code, marker in CODES[fmt]:
        for x in SPECIES_VARIANTS:
            idx += 1
            reactants = [x, "CH"] if marker is None else [x, marker]
            if fmt == "uclchem" and code:
                reactants = [x]
            r = {"reactants": reactants, "products": ["C2", "H"] if x != "C2" else ["C", "CH"], "a": lit(fmt, "a", 1), "b": lit(fmt, "b", 1), "c": lit(fmt, "c", 1),
                 "tmin": WINDOWS[1][0], "tmax": WINDOWS[1][1], "idx": idx, "code": code}
            out.append(r)
    return out


def adjacent_families(fmt):
    """piecewise fits: same reaction split into adjacent temperature windows"""
    if fmt == "krome":
        return [{"reactants": ["O", "OH"], "products": ["O2", "H"], "a": "1.0", "b": "0.0", "c": "0.0", "tmin": lo, "tmax": hi, "win": (elo, ehi), "code": None, "rate": f"{j + 1}.0d-11"}
                for j, (lo, hi, elo, ehi) in enumerate([("NONE", ".LE.1d2", "-1", "1e2"), (">1d2", "3e2", "1e2", "3e2"), (".GE.3e2", "NONE", "3e2", "-1")])]
    fams = []
    bounds = [("10", "100"), ("100", "300"), ("300", "3000"), ("3000", "41000")]
    for j, (lo, hi) in enumerate(bounds):
        fams.append({"reactants": ["O", "OH"], "products": ["O2", "H"], "a": f"{j + 1}.0e-11" if fmt != "leeds" else f"{j + 1}.0E-11", "b": "0.0" if fmt != "leeds" else "0.00", "c": "0.0", "tmin": lo, "tmax": hi, "code": {"kida": 3, "umist": "NN", "leeds": 1, "uclchem": "", "naunet": 100}[fmt]})
    return fams


def file_text(fmt, lines):
    enc = encoders.ENC[fmt]
    head = (encoders.KROME_HEADER + "\n") if fmt == "krome" else ""
    return head + "\n".join(enc(r) for r in lines) + "\n"


def window_pred(tmin, tmax):
    T = P("Tgas")
    lo, hi = F(tmin), F(tmax)
    conds = []
    if lo > 0:
        conds.append(T >= z3.RealVal(str(lo)))
    if hi > 0:
        conds.append(T < z3.RealVal(str(hi)))
    return z3.And(conds) if conds else z3.BoolVal(True)


# --------------------------------------------------------------------------- worker
from ..xcheck import XCheck

XC = XCheck()


def surface_lines(fmt):
    """grain-surface and gas-grain processes (C11's corpus) carrying declared temperature windows, and a surface
    reaction split into adjacent windows; a window guards a reaction whatever its type"""
    from . import c11

    base = c11.leeds_lines() if fmt == "leeds" else c11.ucl_lines() + c11.ucl_therm_lines()
    lines = []
    for k, r in enumerate(base):
        r = dict(r)
        r["idx"] = k + 1
        r["tmin"], r["tmax"] = WINDOWS[k % len(WINDOWS)]
        if r["code"] == "FREEZE":
            # by design the UCLCHEM reader replaces the columns of an accretion line by [0, 30) ("Turn off Freeze-out
            # reaction beyond 30K", uclchemreaction.py): that is the window such a reaction declares in this format
            r["win"] = ("0", "30")
        lines.append(r)
    if fmt == "leeds":
        for k, code in enumerate((11, 12, 11, 12, 11, 12)):
            lines.append({"reactants": ["GH2O", "CRPHOT" if code == 11 else "PHOTON"], "products": ["GOH", "GH"], "a": "1.00E-10", "b": "0.00", "c": "2.0", "tmin": WINDOWS[k][0], "tmax": WINDOWS[k][1], "code": code, "idx": len(lines) + 1})
    bounds = [("10", "100"), ("100", "300"), ("300", "3000")]
    if fmt == "leeds":
        fam = [{"reactants": ["GCH4", "PHOTON"], "products": ["GCH3", "GH"], "a": f"{j + 1}.00E-10", "b": "0.00", "c": "2.0", "tmin": lo, "tmax": hi, "code": 12} for j, (lo, hi) in enumerate(bounds)]
    else:
        fam = [{"reactants": ["#CH4"], "products": ["CH4"], "a": f"{j + 1}.0", "b": "0.0", "c": "1300.0", "tmin": lo, "tmax": hi, "code": "DESCR"} for j, (lo, hi) in enumerate(bounds)]
    return lines, fam


SURFACE_MODEL = {"leeds": "hh93", "uclchem": "rr07x"}


def analyse(fmt, tier, seed, which):
    XC.__init__(every=60 if tier == "thorough" else 150, first=1, cap=12 if tier == "thorough" else 3)
    res = _analyse_fmt(fmt, tier, seed, which)
    res["xcheck"] = XC.summary()
    return res


def _analyse_fmt(fmt, tier, seed, which):
    res = {"fmt": fmt, "n": 0, "ok": 0, "unknown": [], "viol": [], "samples": [], "errors": [], "notes": [], "solver_s": 0.0, "replays": 0, "programs": 0, "canary": [0, 0], "functions": []}
    try:
        _analyse(fmt, tier, seed, which, res)
    except Exception as e:
        res["errors"].append(f"{type(e).__name__}: {e}\n{traceback.format_exc()[-1500:]}")
    return res


def _analyse(fmt, tier, seed, which, res):
    import time

    thorough = tier == "thorough"
    surface = fmt.endswith("+surface")
    shield = fmt.endswith("+shield")  # photoreactions of the self-shielded molecules: only "the emitted expression is valid C" is claimed
    api = fmt.endswith("+api")  # the native types, reactions built through the Python constructor instead of read from a file
    fmt = fmt.split("+")[0]
    tag = fmt + ("+surface" if surface else "") + ("+api" if api else "") + ("+shield" if shield else "")
    if surface:
        lines, fam = surface_lines(fmt)
    elif shield:
        code = {"leeds": 4, "uclchem": "PHOTON"}[fmt]
        lines, fam = [], []
        for x in ("H2", "CO", "N2"):
            for sa, sb, sc in itertools.product((1, -1), (1, 0, -1), (1, 0, -1)):
                lines.append({"reactants": [x] if fmt == "uclchem" else [x, "PHOTON"], "products": {"H2": ["H", "H"], "CO": ["C", "O"], "N2": ["N", "N"]}[x], "a": lit(fmt, "a", sa), "b": lit(fmt, "b", sb), "c": lit(fmt, "c", sc),
                              "tmin": "0", "tmax": "0", "idx": len(lines) + 1, "code": code})
    else:
        lines = build_lines(fmt, thorough, seed)
        fam = adjacent_families(fmt)
    base_idx = len(lines)
    for j, r in enumerate(fam):
        r["idx"] = base_idx + j + 1
    alln = lines + fam
    if fmt == "uclchem" and not surface:
        # UCLCHEM networks always carry H2 (its shielding factor is a registered derived quantity)
        alln.append({"reactants": ["H", "H"], "products": ["H2"], "a": "1.0e-17", "b": "0.0", "c": "0.0", "tmin": "0", "tmax": "0", "idx": len(alln) + 1, "code": ""})
    spec = {"files": [{"name": f"net.{fmt}", "content": file_text(fmt, alln)}], "network": {"filelist": f"net.{fmt}", "fileformats": fmt},
            "targets": [dict(proj.TARGETS[t]) for t in (("dense", "odeint", "sparse", "cusparse") if which == "C06" and not surface else ("dense", "odeint"))]}
    if surface:
        spec["network"]["grain_model"] = SURFACE_MODEL[fmt]
    if api:
        from ..corpus import rx
        spec = {"reactions": [rx(r["reactants"], r["products"], t=int(r["code"]), a=float(r["a"]), b=float(r["b"]), c=float(r["c"]), tmin=float(r["tmin"]), tmax=float(r["tmax"]), idx=r["idx"]) for r in alln],
                "network": {}, "targets": spec["targets"]}
    p = proj.render(f"rates-{fmt}" + ("-surface" if surface else "") + ("-api" if api else "") + ("-shield" if shield else ""), spec)
    if not p.ok:
        # a well-formed file the generator cannot read: that is C07's subject, but nothing can be decided here
        res["errors"].append(f"generator failed on the encoder-written {fmt} file: {p.meta.get('error')}")
        return
    meta = p.meta
    if len(meta["reactions"]) != len(alln):
        res["notes"].append(f"{fmt}: {len(alln)} data lines but {len(meta['reactions'])} reactions (C07's subject); rates are matched by file index")
    by_idx = {}
    for pos, r in enumerate(meta["reactions"]):
        by_idx.setdefault(r["idxfromfile"], []).append(pos)
    if fmt == "uclchem":
        # the format carries no index: reactions are matched by file order
        by_idx = {r["idx"]: [pos] for pos, r in enumerate(alln)} if len(meta["reactions"]) == len(alln) else {}
    for tdir in ("cvode_dense", "odeint_rosenbrock4"):
        if not p.target_ok(tdir):
            err = p.meta["targets"][tdir].get("error", "")
            res["notes"].append(f"{fmt}/{tdir}: render raised {err}")
            continue
        res["programs"] += 1
        try:
            L = ode.load(p, tdir, "rates", extra=("naunet_constants.cpp",), lift=True)
        except Inconclusive as e:
            res["unknown"].append((f"{fmt}/{tdir}", str(e)))
            continue
        if L.errors:
            tu, err = next(iter(L.errors.items()))
            first = next((l for l in err.splitlines() if "error:" in l), err[:200])
            m = re.search(r":(\d+):\d+: error", first)
            srcline = ""
            if m:
                try:
                    srcline = open(os.path.join(p.tdir(tdir), "src", tu)).read().splitlines()[int(m.group(1)) - 1].strip()
                except Exception:
                    pass
            kind = "names" if any(w in first for w in ("undeclared identifier", "redefinition")) else "syntax"
            mk = re.search(r"\bk\[(\d+)\]\s*=", srcline)
            mi = re.search(r"undeclared identifier '(\w+)'", first)
            if which == "C05" and kind == "names" and mk and mi:
                # an identifier inside the rate expression of a corpus reaction that nothing declares: none of the
                # laws of the corpus (no self-shielded reactant in it) contains such a quantity
                pos = int(mk.group(1))
                rr_ = next((r for r in alln if by_idx.get(r["idx"]) == [pos]), None)
                if rr_ is not None and law(fmt, rr_["code"], F(rr_["a"]), F(rr_["b"]), F(rr_["c"])) is not None:
                    res["n"] += 1
                    res["viol"].append({"key": f"{fmt}:{tdir}:code={rr_['code']!r}:reactant={rr_['reactants'][0]}:foreign-symbol", "what": f"rate expression of a {fmt} reaction of type {rr_['code']!r} with reactant {rr_['reactants'][0]} uses '{mi.group(1)}', a quantity that is neither declared nor part of the law of that type: {srcline[:160]}",
                                        "replay": {"format": fmt, "target": tdir, "stderr": err[-1200:], "source_line": srcline, "reaction": rr_, "replay_note": "clang++-14 rejects the emitted naunet_rates/naunet_ode source"}})
                    continue
            if which == "C05" and kind == "syntax":
                res["n"] += 1
                res["viol"].append({"key": f"{fmt}:{tdir}:compile", "what": f"emitted rate expression is not valid C ({fmt}): {first.strip()[-160:]} | source: {srcline[:160]}",
                                    "replay": {"format": fmt, "target": tdir, "stderr": err[-1200:], "source_line": srcline, "file": file_text(fmt, alln)[:4000], "replay_note": "clang++-14 rejects the emitted naunet_rates/naunet_ode source"}})
            else:
                res["unknown"].append((f"{fmt}/{tdir}:compile", first[-200:]))
            continue
        if shield:
            # the value of these rates contains the opaque shielding tables (outside the claim); that every one of them is
            # valid C for every sign class of the coefficients has just been decided by the real compiler
            res["n"] += len(alln)
            res["ok"] += len(alln)
            continue
        run = ode.run_rates(p, tdir, lifted=L)
        res["functions"].append(f"{tdir}:EvalRates[{fmt}]")
        s = z3.Solver()
        s.set("timeout", 30_000)
        T = P("Tgas")
        s.add(T > 0, P("omega") != 1)
        s.add(inv_axioms())
        t0 = time.time()
        nat = None
        for r in alln:
            poss = by_idx.get(r["idx"], [])
            if len(poss) != 1:
                res["unknown"].append((f"{fmt}:{r['idx']}", f"file index maps to {len(poss)} reactions"))
                continue
            i = poss[0]
            k = run.kout[i]
            name = f"{tag}/{tdir}:k[{i}] (idx {r['idx']}, code {r['code']!r}, a={r['a']}, b={r['b']}, c={r['c']}, T in [{r['tmin']},{r['tmax']}))"
            key = f"{tag}:{tdir}:code={r['code']!r}:a={r['a']}:b={r['b']}:c={r['c']}"
            kin = run.kinit[i]
            if which == "C05":
                ref = law(fmt, r["code"], F(r["a"]), F(r["b"]), F(r["c"]))
                if ref is None:
                    continue
                res["n"] += 1
                kk = R(k) if k is not None else kin
                q = z3.And(kk != R(ref), kk != kin)
                rr = str(s.check(q))
                XC.sample(s, [q], rr, name)
                if rr == "unsat":
                    res["ok"] += 1
                    if len(res["samples"]) < 3:
                        res["samples"].append({"obligation": name, "emitted": str(z3.simplify(kk))[:240], "law": str(z3.simplify(R(ref)))[:200], "verdict": "unsat"})
                elif rr == "sat":
                    ok = _replay_rate(p, tdir, res, s.model(), run, i, ref, key, name, r, fmt)
                else:
                    # no verdict in time: the native comparison at default and random points is still made
                    n_before = len(res["viol"])
                    _replay_rate(p, tdir, res, None, run, i, ref, key, name + " [solver " + rr + "]", r, fmt)
                # canary once per project
                if res["canary"][0] < res["programs"] and is_sym(kk) and r["a"] not in ("0.0", "0.00E+00"):
                    res["canary"][0] += 1
                    if str(s.check(z3.And(kk != R(ref) * 2 + 1, kk != kin))) == "sat":
                        res["canary"][1] += 1
            else:  # C06
                res["n"] += 1
                kk = R(k) if k is not None else kin
                a0 = z3.substitute(kk, (kin, z3.RealVal(0)))
                a1 = z3.substitute(kk, (kin, z3.RealVal(1)))
                assigned = a0 == a1
                win = window_pred(*r.get("win", (r["tmin"], r["tmax"])))
                if fmt == "uclchem" and False:
                    pass
                rr = str(s.check(assigned != win))
                XC.sample(s, [assigned != win], rr, name)
                if rr == "unsat":
                    # ... and inside its window the value written does not come from *another* reaction's slot (a
                    # slot that is only written inside that reaction's window): independent of every sentinel
                    others = [x for x in run.kinit if x is not None]
                    b0 = z3.substitute(kk, *[(x, z3.RealVal(0)) for x in others])
                    b1 = z3.substitute(kk, *[(x, z3.RealVal(1)) for x in others])
                    if str(s.check(z3.And(win, b0 != b1))) == "sat":
                        m = s.model()
                        tv = m.eval(T, model_completion=True)
                        res["viol"].append({"key": f"window:{key}:reads-another-slot", "what": f"inside its window [{r['tmin']},{r['tmax']}) (at T={tv}) the rate coefficient of reaction {i} is copied from the slot of another reaction, which is only written inside that reaction's own window: {str(z3.simplify(kk))[:200]}",
                                            "replay": {"format": fmt, "target": tdir, "reaction": r, "T": str(tv), "emitted": str(z3.simplify(kk))[:600], "replay_note": "k is zero-initialised by the callers: outside the other reaction's window the copied value is 0"}})
                        continue
                if rr == "unsat":
                    res["ok"] += 1
                    if len(res["samples"]) < 3:
                        res["samples"].append({"obligation": name, "query": "exists Tgas: (k[i] assigned) != (Tmin<=T<Tmax with non-positive bounds unbounded)", "verdict": "unsat"})
                elif rr == "sat":
                    m = s.model()
                    tv = m.eval(T, model_completion=True)
                    _replay_window(p, tdir, res, r, i, tv, fmt, key, name, win)
                else:
                    res["unknown"].append((name, "solver " + rr))
        if which == "C06":
            # adjacent family: exactly one member active at every T of the union
            guards = []
            for r in fam:
                poss = by_idx.get(r["idx"], [])
                if len(poss) != 1:
                    continue
                i = poss[0]
                kk = R(run.kout[i])
                kin = run.kinit[i]
                guards.append(z3.substitute(kk, (kin, z3.RealVal(0))) == z3.substitute(kk, (kin, z3.RealVal(1))))
            if fam and len(guards) == len(fam):
                lo, hi = F(fam[0].get("win", (fam[0]["tmin"],))[0]), F(fam[-1].get("win", (0, fam[-1]["tmax"]))[1])
                cnt = z3.Sum([z3.If(g, 1, 0) for g in guards])
                res["n"] += 1
                union = z3.And(*([T >= z3.RealVal(str(lo))] if lo > 0 else []), *([T < z3.RealVal(str(hi))] if hi > 0 else []))
                rr = str(s.check(z3.And(union, cnt != 1)))
                if rr == "unsat":
                    res["ok"] += 1
                    res["samples"].append({"obligation": f"{fmt}/{tdir}: adjacent windows {[(r['tmin'], r['tmax']) for r in fam]}: exactly one active for every T in the union", "verdict": "unsat"})
                elif rr == "sat":
                    tv = s.model().eval(T, model_completion=True)
                    res["viol"].append({"key": f"{tag}:{tdir}:adjacent", "what": f"at T={tv} not exactly one of the adjacent windows is active", "replay": {"format": fmt, "T": str(tv), "replay_note": "guards are literal comparisons in the compiled IR"}})
                else:
                    res["unknown"].append((f"{fmt}/{tdir}:adjacent", rr))
        res["solver_s"] += time.time() - t0
    if which == "C06" and not surface and not api:
        for tdir in ("cvode_dense", "cvode_sparse", "cvode_cusparse", "odeint_rosenbrock4"):
            if not p.target_ok(tdir):
                continue
            # callers hand EvalRates a zero-initialised k and nothing else writes it
            # (cusparse: one thread walks two cells, so a work array that is cleared once per thread
            # instead of once per cell reaches EvalRates with the previous cell's rates)
            ncell = 2 if ode.KIND[tdir] == "cusparse" else 1
            fx = ode.run_fex(p, tdir, nsystem=ncell)
            jx = ode.run_jac(p, tdir, nsystem=ncell)
            for rn, nm in ((fx, "Fex"), (jx, "Jac")):
                res["n"] += 1
                if rn.compile_errors:
                    res["unknown"].append((f"{fmt}/{tdir}:{nm}:kzero", "does not compile"))
                    continue
                bad = [n for n in rn.notes if "not zero-initialised" in n]
                if bad:
                    res["viol"].append({"key": f"{fmt}:{tdir}:{nm}:kzero", "what": f"{nm} passes a rate array that is not zero-initialised to EvalRates: {bad[0]}", "replay": {"format": fmt, "replay_note": "read from the compiled IR"}})
                else:
                    res["ok"] += 1


def _point(model, run, rnd=None):
    env = {}
    names = ["Tgas", "Av", "zeta", "omega", "nH", "zeta_cr", "zeta_xr", "G0", "Tdust"]
    for n in names:
        if rnd is None and model is None:
            env[n] = {"Tgas": 77.0, "omega": 0.5, "Av": 1.3, "zeta": 1.0}.get(n, 1.0)
            continue
        if rnd is None:
            v = model.eval(z3.Real(n), model_completion=True)
            try:
                env[n] = float(Fraction(v.numerator_as_long(), v.denominator_as_long()))
            except Exception:
                env[n] = 1.0
        else:
            env[n] = {"Tgas": rnd.uniform(5, 5000), "omega": rnd.uniform(0, 0.9)}.get(n, rnd.uniform(0.1, 10))
    return env


def _replay_rate(p, tdir, res, model, run, i, ref, key, name, r, fmt):
    """native EvalRates of the emitted code vs. the law with libm semantics"""
    rnd = random.Random(i)
    try:
        nat = native.NativeEval(p, tdir, real_rates=True)
        for attempt in range(6):
            env = _point(model, run, None if attempt == 0 else rnd)
            if env["Tgas"] <= 0:
                continue
            NEQ = p.macros(tdir)["NEQUATIONS"]
            out = nat.eval([1.0] * NEQ, data=env)
            res["replays"] += 1
            got = out["k"].get(i)
            try:
                exp = evalf(R(ref), env)
            except EvalError as e:
                res["unknown"].append((name, f"sat; law not evaluable: {e}"))
                return
            win = (F(r["tmin"]) <= 0 or env["Tgas"] >= float(F(r["tmin"]))) and (F(r["tmax"]) <= 0 or env["Tgas"] < float(F(r["tmax"])))
            if not win:
                continue
            if got is None or not native.close(got, exp, 1e-9, 0.0):
                if isinstance(exp, float) and (exp != exp) and (got != got):
                    continue
                res["n"] += 0
                res["viol"].append({"key": key, "what": f"generated rate coefficient differs from the {fmt} law: emitted {got!r}, law {exp!r} at {env}", "replay": {"format": fmt, "target": tdir, "reaction": r, "point": env, "native": got, "law": exp, "line": encoders.ENC[fmt](r)}})
                return
        from ..approx import same_up_to_rounding
        kk_ = run.kout[i]
        if kk_ is not None and same_up_to_rounding(z3.substitute(R(kk_), (run.kinit[i], z3.RealVal(0))), z3.substitute(R(z3.If(window_pred(*r.get("win", (r["tmin"], r["tmax"]))), R(ref), run.kinit[i])), (run.kinit[i], z3.RealVal(0)))):
            res["ok"] += 1
            res["rounded"] = res.get("rounded", 0) + 1
            return True
        res["unknown"].append((name, "sat with uninterpreted libm, but the native build agrees with the law at the model point and random points (UF abstraction too coarse)"))
    except native.NativeError as e:
        res["unknown"].append((name, f"sat; native replay unavailable: {str(e)[:200]}"))


def _replay_window(p, tdir, res, r, i, tv, fmt, key, name, win):
    try:
        Tval = float(Fraction(tv.numerator_as_long(), tv.denominator_as_long()))
    except Exception:
        Tval = 1.0
    try:
        nat = native.NativeEval(p, tdir, real_rates=True)
        NEQ = p.macros(tdir)["NEQUATIONS"]
        env = {"Tgas": Tval, "Av": 1.0, "zeta": 1.3e-17, "omega": 0.5, "nH": 1e4, "zeta_cr": 1.3e-17, "zeta_xr": 0.0, "G0": 1.0, "Tdust": 10.0}
        out = nat.eval([1.0] * NEQ, data=env)
        res["replays"] += 1
        got = out["k"].get(i)
        lo_, hi_ = r.get("win", (r["tmin"], r["tmax"]))  # KROME rows carry the numeric window beside their spelling
        inside = (F(lo_) <= 0 or Tval >= float(F(lo_))) and (F(hi_) <= 0 or Tval < float(F(hi_)))
        active = got != 0.0
        if active != inside and not (inside and F(r["a"]) == 0):
            res["viol"].append({"key": "window:" + key + f":T[{r['tmin']},{r['tmax']})", "what": f"reaction with window [{r['tmin']},{r['tmax']}) is {'active' if active else 'inactive'} at T={Tval} (k={got!r})", "replay": {"format": fmt, "target": tdir, "reaction": r, "T": Tval, "native_k": got, "line": encoders.ENC[fmt](r)}})
            return
        res["unknown"].append((name, f"guard differs symbolically at T={Tval} but native k={got!r} is consistent (zero-valued law?)"))
    except native.NativeError as e:
        res["unknown"].append((name, f"sat; native replay unavailable: {str(e)[:200]}"))


def _work(args):
    return analyse(*args)


def main(pid, tier):
    chk = Check(pid, tier)
    proj.ensure_venv()
    fmts = ["kida", "umist", "leeds", "uclchem", "naunet"] + (["krome", "leeds+surface", "uclchem+surface"] if pid == "C06" else ["leeds+shield", "uclchem+shield"]) + ["naunet+api"]
    ctx = mp.get_context("fork")
    with cf.ProcessPoolExecutor(max_workers=6, mp_context=ctx) as ex:
        results = list(ex.map(_work, [(f, tier, chk.seed, pid) for f in fmts]))
    for r in results:
        chk.programs += r["programs"]
        chk.solver_s += r["solver_s"]
        chk.replays_done += r["replays"]
        chk.functions.update(r["functions"])
        chk.xc.merge(r.get("xcheck"))
        chk.obligations += r["ok"]
        chk.discharged += r["ok"]
        if r["ok"]:
            chk.nontrivial.add(r["fmt"])
        for e in r["errors"]:
            chk.harness_error(f"{r['fmt']}: {e}")
        for n in r["notes"]:
            chk.notes.append(n)
        for name, why in r["unknown"]:
            chk.unknown(name, why)
        for v in r["viol"]:
            chk.violation(v["key"], v["what"], v["replay"])
        for s_ in r["samples"]:
            chk.sample(s_)
        chk.canaries["expected_sat"] += r["canary"][0]
        chk.canaries["got_sat"] += r["canary"][1]
    chk.nontrivial.update(f"{r['fmt']}:{k}" for r in results for k in range(min(r["ok"], 50)))
    chk.bounds = {"formats": fmts, "type_codes": {k: [c for c, _ in v] for k, v in CODES.items()}, "sign_classes": "{+,0,-}^3 (all 27 for two-body codes; 12 per other code in quick, 27 in thorough)",
                  "literal_shapes": EXTREME, "windows": WINDOWS, "back_ends": ["cvode dense", "odeint"]}
    chk.assumptions = [
        "libm functions are uninterpreted (sound for identities); Tgas > 0, omega != 1",
        "coefficients are enumerated by sign class and literal shape; magnitudes are concrete (2.5e-10, 0.5, 3.0 and the extreme literals listed in bounds)",
        "Leeds types 5,15-19 are emitted as 0.0 by design; H2/CO/N2 self-shielding special cases (opaque table look-ups) are outside the claim",
        "real arithmetic; IEEE rounding/overflow of extreme literals is outside the claim",
    ]
    chk.extra["repo_fingerprint"] = proj.repo_fingerprint()
    chk.extra["stubs"] = H.STUB_DOC
    return chk.finish(rule="one obligation = one z3 query per (format, type code, coefficient class, back-end); distinct = distinct (format, reaction) pairs discharged")
