"""C10 -- generated sources are self-contained: every symbol used is declared first.

quick: a configuration matrix (format x grain model x back-end x shielding / thermal
options) is rendered by the real generator; every translation unit must pass the
real compiler's name resolution (clang++-14 against declaration-only API shims).
thorough: additionally a z3 model of the symbol registry (which component kind
registers which symbol with which dependencies, read from the real classes) is
solved for mixtures/orders in which a used identifier is declared later or never;
every SAT mixture is rendered and compiled for confirmation."""
from __future__ import annotations

from ..paths import child_env
import concurrent.futures as cf
import json
import multiprocessing as mp
import os
import re
import subprocess
import traceback

import z3

from .. import encoders, ode, proj
from ..report import Check
from . import c11, rates_props as rp

NAME_ERR = re.compile(r"error: (use of undeclared identifier '([^']+)'|redefinition of '([^']+)'|no member named '([^']+)'|unknown type name '([^']+)'|no matching function for call to '([^']+)')")
from ..paths import REPO
TD = REPO + "/tests/data"
EX = REPO + "/naunet/examples"


def gas_file(fmt):
    lines = rp.build_lines(fmt, False, 0)[:40]
    if fmt == "uclchem":
        lines.append({"reactants": ["H", "H"], "products": ["H2"], "a": "1.0e-17", "b": "0.0", "c": "0.0", "tmin": "0", "tmax": "0", "idx": 999, "code": ""})
    for k, r in enumerate(lines):
        r["idx"] = k + 1
    return rp.file_text(fmt, lines)


def matrix(thorough):
    cases = []
    backs = ["dense", "sparse", "odeint"]
    for fmt in ("kida", "umist", "leeds", "uclchem", "naunet", "krome"):
        cases.append((f"gas-{fmt}", {"files": [{"name": f"g.{fmt}", "content": gas_file(fmt) if fmt != "krome" else open(f"{TD}/minimal.krome").read()}], "network": {"filelist": f"g.{fmt}", "fileformats": fmt}}, backs))
    for nm, f, fmt in (("minimal.kida", "minimal.kida", "kida"), ("minimal.umist", "minimal.umist", "umist"), ("minimal.leeds", "minimal.leeds", "leeds"), ("minimal.krome", "minimal.krome", "krome"), ("minimal.ucl", "minimal.ucl", "uclchem")):
        cases.append((f"fixture-{nm}", {"network": {"filelist": f"{TD}/{f}", "fileformats": fmt}}, ["dense"]))
    # photoreactions of the molecules that formats treat specially (self-shielding column densities are parameters
    # that every format using them has to register itself)
    for fmt, code, marker in (("kida", 2, "Photon"), ("umist", "PH", "PHOTON"), ("leeds", 4, "PHOTON"), ("uclchem", "PHOTON", None), ("naunet", 102, "PHOTON")):
        L = []
        for x, ps in (("H2", ["H", "H"]), ("CO", ["C", "O"]), ("N2", ["N", "N"]), ("H2O", ["OH", "H"])):
            L.append({"reactants": [x] + ([marker] if marker else []), "products": ps, "a": "2.3e-10" if fmt != "leeds" else "2.30E-10", "b": "0.0" if fmt != "leeds" else "0.00", "c": "3.9",
                      "tmin": "0" if fmt != "naunet" else "-1.00", "tmax": "0" if fmt != "naunet" else "-1.00", "idx": len(L) + 1, "code": code})
        L.append({"reactants": ["H", "H"], "products": ["H2"], "a": "1.0e-17" if fmt != "leeds" else "1.00E-17", "b": "0.0" if fmt != "leeds" else "0.00", "c": "0.0",
                  "tmin": "0" if fmt != "naunet" else "-1.00", "tmax": "0" if fmt != "naunet" else "-1.00", "idx": len(L) + 1, "code": {"kida": 3, "umist": "NN", "leeds": 1, "uclchem": "", "naunet": 100}[fmt]})
        from .rates_props import file_text
        cases.append((f"gas-photo-{fmt}", {"files": [{"name": f"ph.{fmt}", "content": file_text(fmt, L)}], "network": {"filelist": f"ph.{fmt}", "fileformats": fmt}}, ["dense", "odeint"]))
    # grain models
    for name, fmt, model, mk, user in c11.CASES[:5]:
        text = "\n".join(encoders.ENC[fmt](r) for r in mk()) + "\n"
        cases.append((f"grain-{name}", {"files": [{"name": f"n.{fmt}", "content": text}], "network": {"filelist": f"n.{fmt}", "fileformats": fmt, "grain_model": model}}, backs))
    # grain-surface photoreactions (Leeds type 12) of the ices that are self-shielded like their gas counterparts
    def photo_lines():
        L = c11.leeds_lines()
        add = lambda rs, ps, code, a="1.00E+00", c="0.0": L.append({"reactants": rs, "products": ps, "a": a, "b": "0.00", "c": c, "tmin": "0", "tmax": "0", "code": code, "idx": len(L) + 1})
        add(["N2"], ["GN2"], 7)
        add(["H2"], ["GH2"], 7)
        add(["H2", "PHOTON"], ["H", "H"], 4, a="5.70E-11", c="4.2")
        add(["GH2", "PHOTON"], ["GH", "GH"], 12, a="5.70E-11", c="4.2")
        add(["GCO", "PHOTON"], ["GC", "GO"], 12, a="2.00E-10", c="3.5")
        add(["GN2", "PHOTON"], ["GN", "GN"], 12, a="2.30E-10", c="3.9")
        add(["GH2O", "PHOTON"], ["GOH", "GH"], 12, a="8.00E-10", c="2.2")
        return L
    ptext = "\n".join(encoders.leeds(r) for r in photo_lines()) + "\n"
    for model, sh in (("hh93", {}), ("hh93i", {"H2": "L96Table", "CO": "V09Table", "N2": "L13Table"})):
        cases.append((f"grain-surface-photo-{model}", {"files": [{"name": "p.leeds", "content": ptext}], "network": {"filelist": "p.leeds", "fileformats": "leeds", "grain_model": model, "shielding": sh}}, ["dense", "odeint"]))
    # dust grains as species of the network (grain charging in the native format) next to each dust model
    charging = "\n".join(encoders.naunet(r) for r in [
        {"reactants": ["GRAIN0", "e-"], "products": ["GRAIN-"], "a": "1.000e-10", "b": "0.000e+00", "c": "0.000e+00", "tmin": "-1.00", "tmax": "-1.00", "idx": 901, "code": 100},
        {"reactants": ["GRAIN-", "H+"], "products": ["GRAIN0", "H"], "a": "1.000e-10", "b": "0.000e+00", "c": "0.000e+00", "tmin": "-1.00", "tmax": "-1.00", "idx": 902, "code": 100}]) + "\n"
    for name, fmt, model, mk, user in c11.CASES[:5]:
        text = "\n".join(encoders.ENC[fmt](r) for r in mk()) + "\n"
        cases.append((f"grain-species-{name}", {"files": [{"name": f"n.{fmt}", "content": text}, {"name": "charging.naunet", "content": charging}], "network": {"filelist": [f"n.{fmt}", "charging.naunet"], "fileformats": [fmt, "naunet"], "grain_model": model}}, ["dense", "sparse", "odeint"] if model == "rr07" else ["dense"]))
    # mixtures of formats
    cases.append(("mix-kida+krome", {"network": {"filelist": [f"{TD}/minimal.kida", f"{TD}/minimal.krome"], "fileformats": ["kida", "krome"]}}, backs))
    cases.append(("mix-krome+kida", {"network": {"filelist": [f"{TD}/minimal.krome", f"{TD}/minimal.kida"], "fileformats": ["krome", "kida"]}}, ["dense"]))
    cases.append(("mix-umist+leeds", {"network": {"filelist": [f"{TD}/minimal.umist", f"{TD}/minimal.leeds"], "fileformats": ["umist", "leeds"]}}, ["dense", "odeint"]))
    cases.append(("mix-leeds+umist", {"network": {"filelist": [f"{TD}/minimal.leeds", f"{TD}/minimal.umist"], "fileformats": ["leeds", "umist"]}}, ["dense"]))
    ucl_grain = "\n".join(encoders.ENC["uclchem"](r) for r in c11.ucl_lines()) + "\n"
    cases.append(("mix-kida+uclchem-rr07", {"files": [{"name": "u.ucl", "content": ucl_grain}], "network": {"filelist": [f"{TD}/minimal.kida", "u.ucl"], "fileformats": ["kida", "uclchem"], "grain_model": "rr07"}}, ["dense"]))
    cases.append(("mix-uclchem+kida-rr07", {"files": [{"name": "u.ucl", "content": ucl_grain}], "network": {"filelist": ["u.ucl", f"{TD}/minimal.kida"], "fileformats": ["uclchem", "kida"], "grain_model": "rr07"}}, ["dense"]))
    # thermal and shielding options
    prim = {"filelist": f"{EX}/primordial/primordial.krome", "fileformats": "krome", "elements": ["e", "H", "D", "He"], "pseudo_elements": ["Photon"]}
    cases.append(("thermal-primordial", {"network": dict(prim, cooling=["CIC_HI", "CIC_HeI", "RC_HII", "CEC_HI"])}, backs))
    cases.append(("thermal-one", {"network": dict(prim, cooling=["RC_HeIII"])}, ["dense"]))
    # every cooling process the tool offers (read from its registry when the check runs), as the bundled primordial example selects them
    try:
        import subprocess as _sp
        names = _sp.run([proj.PY, "-c", "from naunet.thermalprocess import supported_cooling_process as s; print(','.join(s))"], capture_output=True, text=True, env=child_env(dict(os.environ)), timeout=120).stdout.strip().split(",")
        names = [n for n in names if n]
    except Exception:
        names = []
    if names:
        cases.append(("thermal-all-cooling", {"network": dict(prim, cooling=names)}, ["dense", "odeint"]))
    leeds_h2co = "\n".join(encoders.leeds(r) for r in [
        {"reactants": ["H2", "PHOTON"], "products": ["H", "H"], "a": "1.0E-10", "b": "0.00", "c": "2.5", "tmin": "10", "tmax": "41000", "idx": 1, "code": 4},
        {"reactants": ["CO", "PHOTON"], "products": ["C", "O"], "a": "2.0E-10", "b": "0.00", "c": "2.5", "tmin": "10", "tmax": "41000", "idx": 2, "code": 4},
        {"reactants": ["N2", "PHOTON"], "products": ["N", "N"], "a": "2.0E-10", "b": "0.00", "c": "3.5", "tmin": "10", "tmax": "41000", "idx": 3, "code": 4},
        {"reactants": ["H", "H"], "products": ["H2"], "a": "1.0E-17", "b": "0.00", "c": "0.0", "tmin": "10", "tmax": "41000", "idx": 4, "code": 1}]) + "\n"
    for sname, sh in (("none", {}), ("tables", {"H2": "L96Table", "CO": "V09Table", "N2": "L13Table"}), ("vb88", {"CO": "VB88Table"})):
        cases.append((f"shielding-{sname}", {"files": [{"name": "s.leeds", "content": leeds_h2co}], "network": {"filelist": "s.leeds", "fileformats": "leeds", "shielding": sh}}, ["dense", "odeint"] if sname != "none" else ["dense"]))
    late = "\n".join(["@format:idx,R,R,P,P,Tmin,Tmax,rate", "1,H,H,H2,,NONE,NONE,1d-17*T32", "@common:user_crflux,user_Av", "@var:crfac = user_crflux/1.3e-17", "2,H2,,H,H,NONE,NONE,crfac*1d-17*user_Av",
                      "@common:user_gfuv", "3,H,H2,H,H2,10,1d4,user_gfuv*2.5d-10*T32**0.5"]) + "\n"
    cases.append(("krome-late-directives", {"files": [{"name": "late.krome", "content": late}], "network": {"filelist": "late.krome", "fileformats": "krome"}}, backs))
    two = "\n".join(["@format:idx,R,R,P,P,Tmin,Tmax,rate", "@common:user_second", "7,H2,,H,H,NONE,NONE,user_second*1d-17"]) + "\n"
    cases.append(("krome-two-files", {"files": [{"name": "late.krome", "content": late}, {"name": "two.krome", "content": two}], "network": {"filelist": ["late.krome", "two.krome"], "fileformats": ["krome", "krome"]}}, ["dense"]))
    # @var quantities defined in terms of earlier ones, in an order that is neither alphabetical nor reverse alphabetical
    chain = "\n".join(["@format:idx,R,R,P,P,Tmin,Tmax,rate", "@common:user_scale", "@var:user_tfac = Tgas/1.0e2", "@var:user_kfac = 1.0e-10*user_tfac", "@var:user_afac = user_kfac*user_scale + user_tfac",
                       "@var:user_zlast = sqrt(user_afac)", "@var:user_mid = user_zlast/user_kfac", "1,H,H,H2,,NONE,NONE,user_kfac*T32", "2,H2,,H,H,NONE,NONE,user_afac*1d-7 + user_mid*1d-30"]) + "\n"
    cases.append(("krome-chained-vars", {"files": [{"name": "chain.krome", "content": chain}], "network": {"filelist": "chain.krome", "fileformats": "krome"}}, backs))
    cases.append(("empty", {"reactions_empty_list": True, "network": {}}, backs))
    return cases


def analyse(name, spec, backs):
    res = {"case": name, "ok": [], "viol": [], "unknown": [], "notes": [], "errors": [], "programs": 0, "tus": 0}
    try:
        p = proj.render(name, dict(spec, targets=[dict(proj.TARGETS[b]) for b in backs]))
        if not p.ok:
            res["notes"].append(f"generator refused: {str(p.meta.get('error'))[:200]}")
            return res
        for b in backs:
            tdir = proj.TARGETS[b]["dir"]
            if not p.target_ok(tdir):
                res["notes"].append(f"{tdir}: generator refused: {str(p.meta['targets'][tdir].get('error'))[:160]}")
                continue
            res["programs"] += 1
            for tu in p.sources(tdir):
                ll, err = p.compile_ir(tdir, tu)
                res["tus"] += 1
                nm = f"{name}/{tdir}/{tu}"
                if ll is not None:
                    res["ok"].append(nm)
                    continue
                m = NAME_ERR.search(err)
                first = next((l for l in err.splitlines() if "error:" in l), err[:200])
                if "/vf/shim/" in first or "file not found" in first:
                    res["errors"].append(f"{nm}: shim problem: {first[-200:]}")
                elif m:
                    ident = next(g for g in m.groups()[1:] if g)
                    kindw = m.group(1).split("'")[0].strip()
                    key = _confkey(name, spec, kindw, ident)
                    res["viol"].append({"key": key, "what": f"{name} ({tdir}): {tu} does not compile: {kindw} '{ident}'", "replay": {"case": name, "target": tdir, "tu": tu, "stderr": err[-800:], "spec": {k: v for k, v in spec.items() if k != "files"}, "replay_note": "clang++-14 name resolution on the emitted source"}})
                else:
                    res["unknown"].append((nm, f"other compiler error (not a name-resolution diagnostic): {first[-160:]}"))
    except Exception as e:
        res["errors"].append(f"{type(e).__name__}: {e}\n{traceback.format_exc()[-1200:]}")
    return res


def _confkey(name, spec, kindw, ident):
    """findings are keyed by the configuration class, not by the corpus member"""
    nw = spec.get("network", {})
    fmts = nw.get("fileformats") or []
    fmts = [fmts] if isinstance(fmts, str) else list(fmts)
    if ident == "stick" and nw.get("grain_model") == "hh93i" and "leeds" not in fmts:
        return "undeclared:stick:hh93i-without-leeds-reactions"
    if ident == "IDX_H2I" and "uclchem" in fmts:
        return "undeclared:IDX_H2I:uclchem-network-without-H2"
    return f"{name}:{kindw}:{ident}"


def _work(a):
    return analyse(*a)


# --------------------------------------------------------------------------- thorough: registry model (E3)
REGISTRY = r"""
import json, sys, os, logging, re
os.environ['TQDM_DISABLE']='1'; logging.disable(logging.CRITICAL)
from naunet.species import Species
from naunet.reactions.reaction import Reaction
from naunet.reactions.kidareaction import KIDAReaction
from naunet.reactions.umistreaction import UMISTReaction
from naunet.reactions.leedsreaction import LEEDSReaction
from naunet.reactions.uclchemreaction import UCLCHEMReaction
from naunet.reactions.kromereaction import KROMEReaction
from naunet.reactiontype import ReactionType
from naunet.grains import builtin_grain_model
from naunet.thermalprocess import supported_cooling_process
lines = json.load(open(sys.argv[1]))
out = {}
def dump(c):
    return {"params": {k: (None if v is None else str(v)) for k, v in c.params.items()}, "deriveds": {k: str(v) for k, v in c.deriveds.items()}, "constants": {k: str(v) for k, v in c.constants.items()}}
out["naunet"] = dump(Reaction(["H","H"],["H2"], reaction_type=ReactionType.GAS_TWOBODY))
out["kida"] = dump(KIDAReaction(lines["kida"]))
out["umist"] = dump(UMISTReaction(lines["umist"]))
out["leeds"] = dump(LEEDSReaction(lines["leeds"]))
out["uclchem"] = dump(UCLCHEMReaction(lines["uclchem"]))
KROMEReaction.initialize(); KROMEReaction.preprocessing("@format:idx,R,R,R,P,P,P,P,P,Tmin,Tmax,rate")
out["krome"] = dump(KROMEReaction(lines["krome"]))
for g in builtin_grain_model:
    out["grain:" + g.model] = dump(g())
out["thermal"] = dump(next(iter(supported_cooling_process.values())))
json.dump(out, open(sys.argv[2], "w"))
"""
BUILTIN = {"y", "IDX_TGAS", "pi", "amu", "me", "meu", "mp", "mn", "mh", "echarge", "kerg", "hbar", "sqrt", "exp", "log", "pow", "fmin", "fmax", "GetMantleDens", "GetNumDens", "GetShieldingFactor", "GetCharactWavelength", "GetGrainScattering", "GetMu", "GetGamma", "GetHNuclei", "GetElementAbund", "e", "d"}


def registry(work):
    lines = {"kida": encoders.kida({"reactants": ["H", "H"], "products": ["H2"], "a": "1e-10", "b": "0", "c": "0", "tmin": "10", "tmax": "300", "idx": 1, "code": 3}),
             "umist": encoders.umist({"reactants": ["H", "H"], "products": ["H2"], "a": "1e-10", "b": "0", "c": "0", "tmin": "10", "tmax": "300", "idx": 1, "code": "NN"}),
             "leeds": encoders.leeds({"reactants": ["H", "H"], "products": ["H2"], "a": "1.0E-10", "b": "0.00", "c": "0.0", "tmin": "10", "tmax": "300", "idx": 1, "code": 1}),
             "uclchem": encoders.uclchem({"reactants": ["H", "H"], "products": ["H2"], "a": "1e-10", "b": "0", "c": "0", "tmin": "10", "tmax": "300", "idx": 1, "code": ""}),
             "krome": encoders.krome({"reactants": ["H", "H"], "products": ["H2"], "tmin": "NONE", "tmax": "NONE", "idx": 1, "rate": "1d-10"})}
    inp, outp = os.path.join(work, "reg_in.json"), os.path.join(work, "reg_out.json")
    json.dump(lines, open(inp, "w"))
    env = dict(os.environ, TQDM_DISABLE="1")
    child_env(env)
    r = subprocess.run([proj.PY, "-c", REGISTRY, inp, outp], capture_output=True, text=True, env=env, cwd=work, timeout=300)
    if not os.path.exists(outp):
        raise RuntimeError("registry worker failed: " + (r.stderr or r.stdout)[-400:])
    return json.load(open(outp))


def registry_model(chk, work):
    """z3: choose which reaction formats are present and in which order they first appear,
    which grain model, whether thermal processes exist; find assignments in which a derived
    quantity refers to an identifier that is declared later or never."""
    reg = registry(work)
    kinds = [k for k in reg if not k.startswith("grain:") and k != "thermal"]
    grains = [k for k in reg if k.startswith("grain:")]
    present = {k: z3.Bool("has_" + k) for k in kinds}
    pos = {k: z3.Int("pos_" + k) for k in kinds}  # order of first appearance among reaction kinds
    gsel = z3.Int("grain")  # -1 none, else index into grains
    thermal = z3.Bool("thermal")
    s = z3.Solver()
    s.add(z3.Or(*present.values()))
    s.add([z3.And(pos[k] >= 0, pos[k] < len(kinds)) for k in kinds])
    s.add(z3.Distinct(*pos.values()))
    s.add(gsel >= -1, gsel < len(grains))
    ident = re.compile(r"[A-Za-z_]\w*")

    def comp_present(c):
        if c in present:
            return present[c]
        if c == "thermal":
            return thermal
        return gsel == grains.index(c)

    def comp_rank(c):
        # reactions first (by pos), then grains, then thermal: as in `network.reactions + network.grains + heating + cooling`
        if c in pos:
            return pos[c]
        return z3.IntVal(len(kinds) + (0 if c.startswith("grain:") else 1))

    comps = kinds + grains + ["thermal"]
    problems = []
    for c in comps:
        ders = list(reg[c]["deriveds"].items())
        for di, (sym, expr) in enumerate(ders):
            expr_nonum = re.sub(r"(?<![\w.])(\d+\.?\d*|\.\d+)([eE][+-]?\d+)?", " ", expr)
            for dep in sorted(set(ident.findall(expr_nonum)) - BUILTIN):
                if re.match(r"^(IDX_\w+|\d)", dep) or dep == sym:
                    continue
                # declared as a parameter / constant by any present component?
                decl_pc = z3.Or([comp_present(o) for o in comps if dep in reg[o]["params"] or dep in reg[o]["constants"]] or [z3.BoolVal(False)])
                # declared as a derived quantity *before* this one (merge keeps first position)
                firsts = []
                for o in comps:
                    if dep in reg[o]["deriveds"]:
                        oi = list(reg[o]["deriveds"]).index(dep)
                        before = z3.And(comp_present(o), z3.Or(comp_rank(o) < comp_rank(c), z3.And(comp_rank(o) == comp_rank(c), z3.BoolVal(oi < di if o == c else True))))
                        firsts.append(before)
                decl_d = z3.Or(firsts or [z3.BoolVal(False)])
                bad = z3.And(comp_present(c), z3.Not(decl_pc), z3.Not(decl_d))
                # 'first registration wins the position': if another present component registers `sym` earlier, this expr is still the *value* used (last wins) -- handled by rendering
                problems.append((c, sym, dep, bad))
    found = []
    for c, sym, dep, bad in problems:
        s.push()
        s.add(bad)
        while len([f for f in found if f[0] == (c, sym, dep)]) < 3 and s.check() == z3.sat:
            m = s.model()
            conf = {"formats": sorted([k for k in kinds if z3.is_true(m.eval(present[k], model_completion=True))], key=lambda k: m.eval(pos[k], model_completion=True).as_long()),
                    "grain": (grains[m.eval(gsel, model_completion=True).as_long()][6:] if m.eval(gsel, model_completion=True).as_long() >= 0 else ""), "thermal": z3.is_true(m.eval(thermal, model_completion=True))}
            found.append(((c, sym, dep), conf))
            s.add(z3.Or([present[k] != m.eval(present[k], model_completion=True) for k in kinds] + [gsel != m.eval(gsel, model_completion=True)]))
        s.pop()
    chk.extra["registry_model"] = {"components": comps, "dependency_obligations": len(problems), "sat_mixtures": len(found)}
    return found, reg


def main(pid, tier):
    chk = Check("C10", tier)
    proj.ensure_venv()
    thorough = tier == "thorough"
    cases = matrix(thorough)
    ctx = mp.get_context("fork")
    with cf.ProcessPoolExecutor(max_workers=14, mp_context=ctx) as ex:
        results = list(ex.map(_work, cases))
    for r in results:
        chk.programs += r["programs"]
        for n in r["ok"]:
            chk.ok(n)
        if r["ok"]:
            chk.nontrivial.add(r["case"])
        for n, w in r["unknown"]:
            chk.unknown(n, w)
        for v in r["viol"]:
            chk.violation(v["key"], v["what"], v["replay"])
        for e in r["errors"]:
            chk.harness_error(f"{r['case']}: {e}")
        chk.notes += [f"{r['case']}: {n}" for n in r["notes"]]
    chk.extra["translation_units_compiled"] = sum(r["tus"] for r in results)
    chk.functions.add("every emitted translation unit (clang++-14 front end)")
    if thorough:
        work = os.path.join(proj.scratch_root(), "c10")
        os.makedirs(work, exist_ok=True)
        try:
            found, reg = registry_model(chk, work)
            chk.functions.add("Component.register/params/deriveds/constants of every reaction class, grain model and thermal process (z3 registry model)")
            seen = set()
            for (c, sym, dep), conf in found:
                k = json.dumps(conf, sort_keys=True)
                if k in seen:
                    continue
                seen.add(k)
                files, fl, ff = [], [], []
                for fmt in conf["formats"]:
                    text = gas_file(fmt) if fmt != "krome" else open(f"{TD}/minimal.krome").read()
                    files.append({"name": f"m.{fmt}", "content": text})
                    fl.append(f"m.{fmt}")
                    ff.append(fmt)
                if conf["grain"]:
                    # a grain component exists only if the network has ice species: add accretion / thermal desorption in the native format
                    ice = "\n".join(encoders.naunet(r_) for r_ in [
                        {"reactants": ["CO"], "products": ["#CO"], "a": "1.000e+00", "b": "0.000e+00", "c": "0.000e+00", "tmin": "-1.00", "tmax": "-1.00", "idx": 9001, "code": 200},
                        {"reactants": ["#CO"], "products": ["CO"], "a": "1.000e+00", "b": "0.000e+00", "c": "0.000e+00", "tmin": "-1.00", "tmax": "-1.00", "idx": 9002, "code": 201}]) + "\n"
                    files.append({"name": "ice.naunet", "content": ice})
                    fl.append("ice.naunet")
                    ff.append("naunet")
                spec = {"files": files, "network": {"filelist": fl, "fileformats": ff, "grain_model": conf["grain"]}}
                if conf["thermal"]:
                    spec["network"].update({"required_species": ["H+", "e-"], "cooling": ["RC_HII"]})
                name = "model-" + "+".join(conf["formats"]) + (f"-{conf['grain']}" if conf["grain"] else "") + ("-thermal" if conf["thermal"] else "")
                r = analyse(name, spec, ["dense"])
                chk.programs += r["programs"]
                chk.replays_done += 1
                for n in r["ok"]:
                    chk.ok(n)
                for v in r["viol"]:
                    chk.violation(v["key"], v["what"] + f" [predicted by the registry model: derived '{sym}' of {c} uses '{dep}']", v["replay"])
                chk.notes += [f"{name}: {n}" for n in r["notes"]]
        except Exception as e:
            chk.harness_error(f"registry model: {type(e).__name__}: {e}")
    chk.bounds = {"matrix": [c[0] for c in cases], "back_ends": ["dense", "sparse", "rosenbrock4"], "registry_model": "thorough tier only: presence and first-appearance order of 6 reaction kinds x 5 grain models x thermal"}
    chk.assumptions = ["'compiles against the solver's API' = clang++-14 front end with declaration-only SUNDIALS/Boost/CUDA shims (names, not linking)", "combinations the generator refuses with an exception are not judged", "single grain group only"]
    chk.extra["repo_fingerprint"] = proj.repo_fingerprint()
    return chk.finish(explanation="Name resolution of every emitted translation unit is decided by the real compiler front end for a configuration matrix; in the thorough tier an SMT model of the symbol registry (regenerated from the real component classes) searches all mixtures/orders of component kinds for use-before-declaration and each SAT mixture is rendered and compiled.",
                      rule="one obligation = one translation unit that must pass name resolution; distinct = distinct configurations")
