"""C16 -- renormalisation restores the reference elemental abundances.

InitRenorm / RenormAbundance / GetElementAbund / GetHNuclei of the rendered
project are executed symbolically; the linear solve in between is the constraint
A(ab) r = b with b_H = 1 (what SetReferenceAbund stores)."""
from __future__ import annotations

import concurrent.futures as cf
import multiprocessing as mp
import time
import traceback
from fractions import Fraction

import z3

from .. import harness as H, irsym, ode, proj
from ..corpus import Case, rx
from ..irsym import DIVZERO_SEEN, Inconclusive, Ptr, R, State, inv_axioms, is_sym
from ..report import Check
from ..xcheck import XCheck


def cases(thorough):
    out = []
    out.append(Case("RN-HCO", {"reactions": [rx(["H", "H"], ["H2"]), rx(["C", "O"], ["CO"]), rx(["H", "CO"], ["HCO"]), rx(["OH", "H"], ["H2O"]), rx(["O", "H"], ["OH"]), rx(["C", "H2"], ["CH2"])], "network": {}}))
    out.append(Case("RN-ions", {"reactions": [rx(["H", "CR"], ["H+", "e-"], t=101), rx(["H+", "e-"], ["H"]), rx(["He", "CR"], ["He+", "e-"], t=101), rx(["He+", "H"], ["He", "H+"]), rx(["H2", "H+"], ["H3+"]), rx(["H3+", "e-"], ["H2", "H"]), rx(["He++", "E"], ["He+"])], "network": {"required_species": ["H2"]}}))
    out.append(Case("RN-deut", {"reactions": [rx(["H", "D"], ["HD"]), rx(["HD", "H+"], ["D+", "H2"]), rx(["oH2", "D+"], ["pH2D+"]), rx(["N2", "D+"], ["N2D+"]), rx(["N", "N"], ["N2"])], "network": {"required_species": ["H+", "oH2"]}}))
    out.append(Case("RN-ice", {"reactions": [rx(["H", "CO"], ["#HCO"]), rx(["#H", "#CO"], ["#HCO"]), rx(["H"], ["#H"]), rx(["CO"], ["#CO"]), rx(["C", "O"], ["CO"]), rx(["#HCO"], ["H", "CO"])], "network": {}}))
    out.append(Case("RN-grain", {"reactions": [rx(["H", "H"], ["H2"]), rx(["GRAIN0", "e-"], ["GRAIN-"]), rx(["GRAIN-", "H+"], ["GRAIN0", "H"]), rx(["H", "CR"], ["H+", "e-"], t=101)], "network": {}}, tags={"grain"}))
    # a molecule none of whose elements is present as an atomic species (O2 without O)
    out.append(Case("RN-missing-atom", {"reactions": [rx(["H", "H"], ["H2"]), rx(["O2", "C"], ["CO", "O2"]), rx(["C", "H"], ["CH"])], "network": {}}))
    # one Network object with a history: the element list is read (as any earlier rendering does), then the network is edited
    hist = [rx(["H", "H"], ["H2"]), rx(["He", "CR"], ["He+", "e-"], t=101), rx(["He+", "H"], ["He", "H+"]), rx(["C", "O"], ["CO"]), rx(["H", "CO"], ["HCO"]), rx(["H+", "e-"], ["H"])]
    out.append(Case("RN-history-remove-element", {"reactions": hist, "network": {}, "ops": [{"op": "exec", "code": "_ = net.elements\nnet.remove_reaction([i for i, r in enumerate(net.reaction_list) if any(s.name.startswith('He') for s in r.reactants + r.products)])\n"}]}))
    out.append(Case("RN-history-require-atom", {"reactions": [hist[0], hist[3], hist[4], hist[5]], "network": {}, "ops": [{"op": "exec", "code": "_ = net.elements\nnet.required_species = ['He', 'N']\n"}]}))
    # upper-case element spellings renamed by a replacement table (the UCLCHEM example's set-up): He and Si are elements
    ucl = "\n".join(["H,H,NAN,H2,NAN,NAN,NAN,1e-17,0.0,0.0,0,0", "HE,CRP,NAN,HE+,E-,NAN,NAN,0.5,0.0,0.0,10,41000", "HE+,H,NAN,HE,H+,NAN,NAN,1e-9,0.0,0.0,10,41000", "SI,O,NAN,SIO,NAN,NAN,NAN,1e-10,0.0,0.0,10,41000",
                     "SIO,H+,NAN,SI+,OH,NAN,NAN,1e-9,0.0,0.0,10,41000", "O,H,NAN,OH,NAN,NAN,NAN,1e-10,0.0,0.0,10,41000", "HEH+,E-,NAN,HE,H,NAN,NAN,1e-8,-0.5,0.0,10,41000", "SI+,E-,NAN,SI,NAN,NAN,NAN,1e-11,-0.6,0.0,10,41000"]) + "\n"
    out.append(Case("RN-ucl-upper", {"files": [{"name": "u.ucl", "content": ucl}], "pre": [{"op": "exec", "code": "from naunet.species import Species\nSpecies._replacement = {'E': 'e', 'HE': 'He', 'SI': 'Si'}\n"}],
                                     "network": {"filelist": "u.ucl", "fileformats": "uclchem", "elements": ["E", "H", "HE", "C", "O", "SI"], "pseudo_elements": ["CR", "CRP", "PHOTON", "CRPHOT"]}}))
    if thorough:
        out.append(Case("RN-SiS", {"reactions": [rx(["Si", "O"], ["SiO"]), rx(["S", "O"], ["SO"]), rx(["Si+", "e-"], ["Si"]), rx(["SiO", "H+"], ["Si+", "OH"]), rx(["O", "H"], ["OH"]), rx(["H", "H"], ["H2"]), rx(["Si", "CR"], ["Si+", "e-"], t=101), rx(["Mg", "H+"], ["Mg+", "H"]), rx(["Fe", "H+"], ["Fe+", "H"])], "network": {}}))
    return out


def analyse(case, tier, which="functions"):
    res = {"case": case.name, "ok": [], "unknown": [], "viol": [], "errors": [], "notes": [], "samples": [], "solver_s": 0.0, "programs": 0, "functions": []}
    try:
        _analyse(case, tier, res, which)
    except Exception as e:
        res["errors"].append(f"{type(e).__name__}: {e}\n{traceback.format_exc()[-1500:]}")
    return res


def _analyse(case, tier, res, which="functions"):
    p = proj.render(case.name, case.with_targets([proj.TARGETS["dense"], proj.TARGETS["odeint"]]))
    if not p.ok:
        res["notes"].append(f"generator refused: {p.meta.get('error')}")
        return
    meta = p.meta
    if which == "class":
        for tdir in ("cvode_dense", "odeint_rosenbrock4"):
            if p.target_ok(tdir):
                try:
                    _class_level(case, p, tdir, res)
                except Inconclusive as e:
                    res["unknown"].append((f"{case.name}/{tdir}:Naunet::Renorm", f"encoder: {e}"))
        return
    for tdir in ("cvode_dense", "odeint_rosenbrock4"):
        if not p.target_ok(tdir):
            res["notes"].append(f"{tdir}: {p.meta['targets'][tdir].get('error')}")
            continue
        res["programs"] += 1
        try:
            _one(case, p, meta, tdir, res)
        except Inconclusive as e:
            res["unknown"].append((f"{case.name}/{tdir}", f"encoder: {e}"))


def _one(case, p, meta, tdir, res):
    macros = p.macros(tdir)
    NS, NE = macros["NSPECIES"], macros["NELEMENTS"]
    if NE == 0 or "IDX_ELEM_H" not in macros:
        res["notes"].append(f"{tdir}: no hydrogen element -> Renorm is compiled out")
        return
    kind = ode.KIND[tdir]
    # the renormalised elements are the atomic species of the network as rendered (computed here from the species list)
    atoms = set()
    for sp in meta["species"]:
        ec = sp["element_count"]
        if len(ec) == 1 and sum(ec.values()) == 1 and sp["charge"] == 0 and not sp["is_surface"] and not sp["is_electron"]:
            atoms.add(next(iter(ec)))
    declared = {k[len("IDX_ELEM_"):] for k in macros if k.startswith("IDX_ELEM_")}
    if atoms != declared:
        res["viol"].append({"key": f"{case.name}/{tdir}:element-set", "what": f"the generated renormalisation works on the elements {sorted(declared)} but the atomic species of the rendered network are {sorted(atoms)}: " + ("an element without any species makes the coupling matrix singular" if declared - atoms else "an atomic species is not renormalised"),
                            "replay": {"case": case.name, "target": tdir, "declared": sorted(declared), "atomic_species": sorted(atoms), "spec": case.spec, "replay_note": "IDX_ELEM_* macros of the emitted naunet_macros.h against the species list of the same rendering"}})
    else:
        res["ok"].append(f"{case.name}/{tdir}:element-set")
    L = H.Loaded(p, tdir, tus=["naunet_renorm.cpp", "naunet_physics.cpp", "naunet_constants.cpp"])
    if L.errors:
        tu, err = next(iter(L.errors.items()))
        first = next((l for l in err.splitlines() if "error:" in l), err[:200])
        if "naunet_renorm" in tu and "/vf/shim/" not in first and not any(w in first for w in ("undeclared identifier", "redefinition")):
            m = __import__("re").search(r":(\d+):\d+: error", first)
            line = ""
            try:
                line = open(__import__("os").path.join(p.tdir(tdir), "src", tu)).read().splitlines()[int(m.group(1)) - 1].strip()
            except Exception:
                pass
            res["viol"].append({"key": f"{case.name}/{tdir}:renorm-invalid-c", "what": f"emitted renormalisation code is not valid C++: {first[-120:]} | {line[:120]}", "replay": {"case": case.name, "target": tdir, "stderr": err[-800:], "source_line": line, "spec": case.spec, "replay_note": "clang++-14 rejects the emitted naunet_renorm.cpp"}})
        else:
            res["unknown"].append((f"{case.name}/{tdir}:compile", first[-200:]))
        return
    M = L.M
    del DIVZERO_SEEN[:]
    tag = f"{case.name}/{tdir}"
    ab = [z3.Real(f"ab{i}") for i in range(NS)]
    r = [z3.Real(f"r{i}") for i in range(NE)]
    st = State()
    H.make_array(st, "ab", NS, ab)
    H.make_array(st, "A.data", NE * NE)
    st.size["A"] = 24
    dims = {"A": ("A.data", NE, NE)}
    M.stubs["SHIM_SM_ELEMENT_D"] = ode._mat_stub(dims)
    L.add_pattern_stub(r"ublas::matrix<double>::operator\(\)\(unsigned long, unsigned long\)", ode._mat_stub(dims))
    fn = L.find(r"^InitRenorm\(")
    M.run_function(fn, st, [Ptr("ab", 0), Ptr("A", 0)])
    res["functions"] += [f"{tdir}:InitRenorm", f"{tdir}:RenormAbundance", f"{tdir}:GetElementAbund", f"{tdir}:GetHNuclei"]
    cells = st.cells("A.data")
    A = [[cells.get(8 * (i * NE + j)) for j in range(NE)] for i in range(NE)]
    if any(v is None for row in A for v in row):
        res["viol"].append({"key": f"{tag}:matrix-unwritten", "what": "InitRenorm leaves cells of the coupling matrix unwritten", "replay": {"case": case.name}})
        return
    divz = list(DIVZERO_SEEN)
    # RenormAbundance on the solution r
    st2 = State()
    H.make_array(st2, "ab", NS, ab)
    if kind == "odeint":
        H.make_array(st2, "r.data", NE, r)
        st2.size["rvec"] = 16
        L.add_pattern_stub(r"ublas::vector<double>::operator\[\]\(unsigned long\)", ode._vec_stub({"rvec": "r.data"}))
        L.add_pattern_stub(r"ublas::vector<double>::operator\(\)\(unsigned long\)", ode._vec_stub({"rvec": "r.data"}))
        M.run_function(L.find(r"^RenormAbundance\("), st2, [Ptr("rvec", 0), Ptr("ab", 0)])
    else:
        H.make_array(st2, "r", NE, r)
        M.run_function(L.find(r"^RenormAbundance\("), st2, [Ptr("r", 0), Ptr("ab", 0)])
    abn = [st2.load("ab", 8 * i) for i in range(NS)]
    divz += list(DIVZERO_SEEN)
    oob = list(M.oob)
    # element totals through the generated helper, on old and new abundances
    def elem_abund(vec, e):
        s_ = State()
        H.make_array(s_, "v", NS, vec)
        _, v = M.run_function(L.find(r"^GetElementAbund\("), s_, [Ptr("v", 0), e])
        return v

    def hnuc(vec):
        s_ = State()
        H.make_array(s_, "v", NS, vec)
        _, v = M.run_function(L.find(r"^GetHNuclei\("), s_, [Ptr("v", 0)])
        return v

    s = z3.Solver()
    s.set("timeout", 120_000)
    s.add([a > 0 for a in ab])
    t0 = time.time()
    eH = macros["IDX_ELEM_H"]
    Hold = R(hnuc(ab))
    s.add(Hold > 0)
    s.add(inv_axioms())
    b = [sum((R(A[i][j]) * r[j] for j in range(NE)), z3.RealVal(0)) for i in range(NE)]

    def ask(name, bad, what, extra=()):
        rr = None
        if not extra and z3.is_distinct(bad) and bad.num_args() == 2:
            # polynomial identity: z3's sum-of-monomials normal form of lhs - rhs is literally 0
            if z3.is_rational_value(z3.simplify(bad.arg(0) - bad.arg(1), som=True)) and z3.simplify(bad.arg(0) - bad.arg(1), som=True).as_fraction() == 0:
                rr, m = "unsat", None
                res["normal_form"] = res.get("normal_form", 0) + 1
        if rr is None:
            s.push()
            for e in extra:
                s.add(e)
            s.add(bad)
            rr = str(s.check())
            m = s.model() if rr == "sat" else None
            XC.sample(s, [], rr, name)
            s.pop()
        if rr == "unsat":
            res["ok"].append(name)
            if len(res["samples"]) < 3:
                res["samples"].append({"obligation": name, "verdict": "unsat"})
        elif rr == "sat":
            pt = {str(d): str(m[d]) for d in m.decls()[:20]}
            res["viol"].append({"key": name, "what": what, "replay": {"case": case.name, "target": tdir, "model": pt, "replay_note": "polynomial identity over the compiled renormalisation code; point evaluates both sides exactly"}})
        else:
            res["unknown"].append((name, "solver " + rr))

    # literal zero divisors (e.g. mass number 0.0 of a grain species)
    if divz:
        res["viol"].append({"key": f"{tag}:div-by-literal-zero", "what": f"renormalisation divides by the literal 0.0 ({len(divz)} terms), abundances become NaN/inf", "replay": {"case": case.name, "target": tdir, "spec": case.spec, "replay_note": "division by the constant 0.0 is present in the compiled IR (see naunet_renorm.cpp)"}})
    else:
        res["ok"].append(f"{tag}:no-literal-zero-divisor")
    for cond, w in oob:
        res["viol"].append({"key": f"{tag}:oob", "what": f"renormalisation accesses memory out of bounds: {w}", "replay": {"case": case.name}})
    # (1) E_i(ab') = b_i * H(ab)    [H(ab') = H(ab) follows for b_H = 1, obligation (2)]
    for e in range(NE):
        En = R(elem_abund(abn, e))
        ask(f"{tag}:element{e}:E(ab')=b*H(ab)", En != b[e] * Hold, f"after renormalisation the total of element {e} is not reference ratio x hydrogen nuclei")
    Hn = R(hnuc(abn))
    # H(ab') = b_H * H(ab) as a polynomial identity; with the stored reference ratio of hydrogen b_H = 1
    # (SetReferenceAbund, checked at class level) the hydrogen-nuclei total is preserved
    ask(f"{tag}:H-nuclei-preserved", Hn != b[eH] * Hold, "renormalisation changes the hydrogen-nuclei total although the reference ratio of H is 1")
    # (3) generated helper equals the count-weighted sum of abundances
    slots = {sp["name"]: macros["IDX_" + sp["alias"]] for sp in meta["species"]}
    for e, el in enumerate(meta["elements"]):
        ename = next(iter(el["element_count"]))
        eidx = macros["IDX_ELEM_" + ename]
        ref = sum((sp["element_count"].get(ename, 0) * ab[slots[sp["name"]]] for sp in meta["species"] if sp["element_count"].get(ename, 0)), z3.RealVal(0))
        ask(f"{tag}:GetElementAbund[{ename}]", R(elem_abund(ab, eidx)) != ref, f"GetElementAbund({ename}) is not the count-weighted sum of abundances")
    # (4) electrons untouched
    for sp in meta["species"]:
        if sp["is_electron"]:
            i = slots[sp["name"]]
            ask(f"{tag}:electron-untouched", R(abn[i]) != ab[i], "renormalisation rescales the electron abundance")
    # (5) identity when the ratios already match: r = 1 solves A r = b_current and every factor is 1.
    # Only meaningful when every element of every molecule is itself renormalised (present as an atomic
    # species): otherwise the mass weights of a molecule do not add up to its mass number by construction.
    one = [(rv, z3.RealVal(1)) for rv in r]
    complete = all(all(en in [next(iter(x["element_count"])) for x in meta["elements"]] for en in sp["element_count"]) for sp in meta["species"] if not sp["is_electron"])
    if complete and not divz:
        for e in range(NE):
            be = z3.substitute(b[e], *one)
            ask(f"{tag}:A*1=current-ratio[{e}]", be * Hold != R(elem_abund(ab, e)), "A(ab)*1 is not the current elemental ratio: renormalising an already matching state is not the identity")
        for sp in meta["species"]:
            i = slots[sp["name"]]
            ask(f"{tag}:identity[{sp['name']}]", z3.substitute(R(abn[i]), *one) != ab[i], f"with matching ratios (r=1) species {sp['name']} is rescaled")
    else:
        # species made only of non-renormalised elements must at least be left untouched
        elnames = [next(iter(x["element_count"])) for x in meta["elements"]]
        for sp in meta["species"]:
            if not sp["is_electron"] and not any(en in elnames for en in sp["element_count"]):
                i = slots[sp["name"]]
                ask(f"{tag}:untouched[{sp['name']}]", R(abn[i]) != ab[i], f"species {sp['name']} shares no element with the renormalised ones but is rescaled")
    res["solver_s"] += time.time() - t0


XC = XCheck()


def _work(a):
    XC.__init__(every=10 if a[1] == "thorough" else 30, first=1, cap=6 if a[1] == "thorough" else 1, tlimit_ms=30_000 if a[1] == "thorough" else 10_000)
    r = analyse(*a)
    r["xcheck"] = XC.summary()
    return r


# --------------------------------------------------------------------------- class level: Naunet::Renorm / SetReferenceAbund
def _callees(M, fname):
    import re

    calls = set()
    for b in M.funcs[fname].blocks.values():
        for I in b:
            if I.op in ("call", "invoke"):
                m = re.search(r"@([\w.$]+)\(", I.text)
                if m:
                    calls.add(m.group(1))
    return H.demangle(sorted(calls))


def run_class_renorm(p, tdir):
    """Naunet::Renorm of the emitted naunet.cpp over a symbolic object state.  The library calls are
    stubs with the documented aliasing behaviour: N_VMake_Serial wraps the caller's array, N_VNew_Serial
    owns fresh storage, SUNLinSolSolve(LS, A, x, b) / lu_substitute(A, pm, x) read the right-hand side and
    then overwrite x with an arbitrary solution vector `sol`; InitRenorm / RenormAbundance are recorded."""
    from . import c19
    from ..irsym import Machine

    macros = p.macros(tdir)
    NS, NE = macros["NSPECIES"], macros["NELEMENTS"]
    ll, err = p.compile_ir(tdir, "naunet.cpp")
    if ll is None:
        raise Inconclusive("naunet.cpp does not lower: " + err[-200:])
    M = Machine([ll], H.base_stubs())
    dem = H.demangle(sorted(M.funcs))
    fields = c19.class_fields(p, tdir)
    offs, size, _ = M.struct_layout("%class.Naunet")
    if len(offs) != len(fields) or "ab_ref_" not in fields:
        raise Inconclusive(f"class Naunet: {len(offs)} IR fields vs {len(fields)} declared members")
    fo = {n: o for n, (o, _) in zip(fields, offs)}
    st = State()
    st.size["this"] = size
    ref = [z3.Real(f"ref{i}") for i in range(NE)]
    st.mem["this"] = {fo["ab_ref_"] + 8 * i: ref[i] for i in range(NE)}
    if "errfp_" in fo:
        st.mem["this"][fo["errfp_"]] = Ptr("errfp", 0)
    ab = [z3.Real(f"ab{i}") for i in range(NS)]
    H.make_array(st, "ab", NS, ab)
    sol = [z3.Real(f"sol{i}") for i in range(NE)]
    rec = {"solve": [], "renorm": [], "init": [], "n": 0, "order": []}
    lens = {}

    def new(prefix):
        rec["n"] += 1
        return f"{prefix}{rec['n']}"

    def nv_make(M_, st_, a):
        o = new("nv")
        st_.size[o], st_.mem[o], lens[o] = 8, {0: a[1]}, a[0]
        return st_, Ptr(o, 0)

    def nv_new(M_, st_, a):
        d, n = new("nvdata"), a[0]
        st_.size[d], st_.mem[d] = 8 * n, {8 * i: z3.Real(f"{d}_uninit{i}") for i in range(n)}
        o = new("nv")
        st_.size[o], st_.mem[o], lens[o] = 8, {0: Ptr(d, 0)}, n
        return st_, Ptr(o, 0)

    def nv_const(M_, st_, a):
        dp = st_.load(a[1].obj, 0)
        for i in range(lens[a[1].obj]):
            st_.store(dp.obj, dp.off + 8 * i, a[0])
        return st_, 0

    def flag(nm):
        return lambda M_, st_, a: (st_, M_.fresh_int(nm))

    def ctx_create(M_, st_, a):
        st_.store(a[1].obj, a[1].off, Ptr("sunctx", 0))
        return st_, M_.fresh_int("ctxflag")

    def opaque(nm):
        def f(M_, st_, a):
            o = new(nm)
            st_.size[o], st_.mem[o] = 8, {}
            return st_, Ptr(o, 0)

        return f

    def init_renorm(M_, st_, a):
        rec["init"].append((st_.pathcond(), a[0], a[1]))
        rec["order"].append("init")
        return st_, 0

    def solve_cvode(M_, st_, a):
        A, x, b = a[1], a[2], a[3]
        bp, xp = st_.load(b.obj, 0), st_.load(x.obj, 0)
        bv = [st_.load(bp.obj, bp.off + 8 * i) for i in range(NE)]
        for i in range(NE):
            st_.store(xp.obj, xp.off + 8 * i, sol[i])
        rec["solve"].append((st_.pathcond(), A, bv))
        rec["order"].append("solve")
        return st_, M_.fresh_int("solveflag")

    def renorm_cvode(M_, st_, a):
        rp = a[0]
        rec["renorm"].append((st_.pathcond(), [st_.load(rp.obj, rp.off + 8 * i) for i in range(NE)], a[1]))
        rec["order"].append("renorm")
        return st_, 0

    # uBLAS objects: {0: n, 8: data pointer}
    def vec_ctor(M_, st_, a):
        d, n = new("vdata"), a[1]
        st_.size[d], st_.mem[d] = 8 * n, {8 * i: z3.RealVal(0) for i in range(n)}
        st_.store(a[0].obj, a[0].off, n)
        st_.store(a[0].obj, a[0].off + 8, Ptr(d, 0))
        return st_, None

    def vec_copy(M_, st_, a):
        n = st_.load(a[1].obj, a[1].off)
        sp = st_.load(a[1].obj, a[1].off + 8)
        d = new("vdata")
        st_.size[d], st_.mem[d] = 8 * n, {8 * i: st_.load(sp.obj, sp.off + 8 * i) for i in range(n)}
        st_.store(a[0].obj, a[0].off, n)
        st_.store(a[0].obj, a[0].off + 8, Ptr(d, 0))
        return st_, None

    def vec_at(M_, st_, a):
        dp = st_.load(a[0].obj, a[0].off + 8)
        i = a[1]
        if not isinstance(i, int):
            raise Inconclusive("symbolic vector index in Naunet::Renorm")
        return st_, Ptr(dp.obj, dp.off + 8 * i)

    def mat_ctor(M_, st_, a):
        st_.store(a[0].obj, a[0].off, a[1])
        st_.store(a[0].obj, a[0].off + 8, a[2])
        return st_, None

    def mat_size1(M_, st_, a):
        return st_, st_.load(a[0].obj, a[0].off)

    def lu_subst(M_, st_, a):
        A, x = a[0], a[2]
        xp = st_.load(x.obj, x.off + 8)
        bv = [st_.load(xp.obj, xp.off + 8 * i) for i in range(NE)]
        for i in range(NE):
            st_.store(xp.obj, xp.off + 8 * i, sol[i])
        rec["solve"].append((st_.pathcond(), A, bv))
        rec["order"].append("solve")
        return st_, None

    def renorm_odeint(M_, st_, a):
        v = a[0]
        dp = st_.load(v.obj, v.off + 8)
        rec["renorm"].append((st_.pathcond(), [st_.load(dp.obj, dp.off + 8 * i) for i in range(NE)], a[1]))
        rec["order"].append("renorm")
        return st_, 0

    noop = lambda M_, st_, a: (st_, 0)
    M.stubs.update({"SUNContext_Create": ctx_create, "SUNContext_Free": noop, "N_VMake_Serial": nv_make, "N_VNew_Serial": nv_new, "N_VConst": nv_const,
                    "N_VGetArrayPointer": lambda M_, st_, a: (st_, st_.load(a[0].obj, 0)), "N_VDestroy": noop, "SUNMatDestroy": noop, "SUNLinSolFree": noop,
                    "SUNDenseMatrix": opaque("Amat"), "SUNSparseMatrix": opaque("Amat"), "SUNLinSol_Dense": opaque("LS"), "SUNLinSol_KLU": opaque("LS"),
                    "SUNLinSolSetup": flag("setupflag"), "SUNLinSolSolve": solve_cvode})
    fname = next((n for n, d in dem.items() if d.startswith("Naunet::Renorm(")), None)
    if fname is None:
        raise Inconclusive("no Naunet::Renorm in naunet.cpp")
    import re
    curE = [z3.Real(f"cur_E{i}") for i in range(NE)]
    curHn = z3.Real("cur_Hnuclei")

    for n, d in _callees(M, fname).items():
        d = d or ""
        if d.startswith("InitRenorm("):
            M.stubs[n] = init_renorm
        elif d.startswith("RenormAbundance(boost"):
            M.stubs[n] = renorm_odeint
        elif d.startswith("RenormAbundance("):
            M.stubs[n] = renorm_cvode
        elif re.search(r"ublas::vector<double>::vector\(unsigned long\)", d):
            M.stubs[n] = vec_ctor
        elif re.search(r"ublas::vector<double>::vector\(boost", d):
            M.stubs[n] = vec_copy
        elif re.search(r"ublas::vector<double>::operator(\[\]|\(\))\(unsigned long\)", d):
            M.stubs[n] = vec_at
        elif re.search(r"ublas::matrix<double>::matrix\(unsigned long, unsigned long\)", d):
            M.stubs[n] = mat_ctor
        elif "ublas::matrix<double>::size1()" in d:
            M.stubs[n] = mat_size1
        elif "lu_factorize<" in d:
            M.stubs[n] = noop
        elif "lu_substitute<" in d:
            M.stubs[n] = lu_subst
        elif re.search(r"::~(vector|matrix|permutation_matrix)\(\)", d) or "permutation_matrix<unsigned long>::permutation_matrix(" in d:
            M.stubs[n] = lambda M_, st_, a: (st_, None)
        elif d.startswith("GetElementAbund("):
            # a driver that looks at the current element totals before deciding what to do: arbitrary reals, one per element
            def cur_gea(M_, st_, a):
                if not isinstance(a[1], int) or not (0 <= a[1] < NE):
                    raise Inconclusive("GetElementAbund index in Naunet::Renorm")
                return st_, curE[a[1]]
            M.stubs[n] = cur_gea
        elif d.startswith("GetHNuclei("):
            M.stubs[n] = lambda M_, st_, a: (st_, curHn)
    _, ret = M.run_function(fname, st, [Ptr("this", 0), Ptr("ab", 0)])
    post = [st.load("this", fo["ab_ref_"] + 8 * i) for i in range(NE)]
    return {"ret": ret, "rec": rec, "ref": ref, "sol": sol, "post": post, "NE": NE, "NS": NS, "M": M, "fo": fo, "dem": dem, "fields": fields, "size": size, "curE": curE, "curHn": curHn}


def _class_level(case, p, tdir, res):
    from .c19 import R_int
    from ..irsym import RetSet, Throw

    macros = p.macros(tdir)
    if macros["NELEMENTS"] == 0 or "IDX_ELEM_H" not in macros:
        return
    t0 = time.time()
    r = run_class_renorm(p, tdir)
    rec, ref, sol, post, NE = r["rec"], r["ref"], r["sol"], r["post"], r["NE"]
    res["functions"] += [f"{tdir}:Naunet::Renorm", f"{tdir}:Naunet::SetReferenceAbund"]
    tag = f"{case.name}/{tdir}:Naunet::Renorm"
    ret = r["ret"]
    if isinstance(ret, (RetSet, Throw)):
        raise Inconclusive("Naunet::Renorm has exceptional exits")
    retz = R_int(ret)
    s = z3.Solver()
    s.set("timeout", 60_000)

    def ask(name, bad, what, replay=None, expect="unsat"):
        rr = str(s.check(bad))
        XC.sample(s, [bad], rr, name)
        if expect == "sat":
            if rr == "sat":
                res["ok"].append(name)
            else:
                res["errors"].append(f"reachability twin {name}: {rr}")
            return
        if rr == "unsat":
            res["ok"].append(name)
        elif rr == "sat":
            m = s.model()
            rp = {"case": case.name, "target": tdir, "model": {str(d): str(m[d]) for d in m.decls()[:16]}, "spec": case.spec}
            rp.update(replay() if replay else {"replay_note": "aliasing/ordering fact of the compiled Naunet::Renorm under the documented SUNDIALS/uBLAS call contracts"})
            if rp.get("native_reproduced") is False:
                res["errors"].append(f"non-reproducing counterexample for {name}: the native build with a dense direct solver renormalises correctly on three successive calls")
                return
            res["viol"].append({"key": name, "what": what, "replay": rp})
        else:
            res["unknown"].append((name, "solver " + rr))

    if len(rec["solve"]) < 1 or len(rec["renorm"]) < 1 or len(rec["init"]) < 1:
        res["viol"].append({"key": f"{tag}:calls", "what": f"Naunet::Renorm does not run InitRenorm -> linear solve -> RenormAbundance (calls seen: {rec['order']})", "replay": {"case": case.name, "target": tdir}})
        return
    if rec["order"].index("init") > rec["order"].index("solve") or rec["order"].index("solve") > rec["order"].index("renorm"):
        res["viol"].append({"key": f"{tag}:order", "what": f"Naunet::Renorm calls its steps in the order {rec['order']}", "replay": {"case": case.name, "target": tdir}})
    else:
        res["ok"].append(f"{tag}:order")
    for pc, abp, A in rec["init"]:
        ok = abp == Ptr("ab", 0) and all(A == A2 for _, A2, _ in rec["solve"])
        (res["ok"].append if ok else (lambda n: res["viol"].append({"key": n, "what": "InitRenorm is not applied to the caller's abundances and the matrix that is solved", "replay": {"case": case.name, "target": tdir}})))(f"{tag}:InitRenorm-args")
    for pc, A, bv in rec["solve"]:
        for i in range(NE):
            ask(f"{tag}:rhs[{i}]=stored-reference", z3.And(pc, R(bv[i]) != ref[i]), f"the right-hand side handed to the linear solve is not the stored reference ratio of element {i}")
    for pc, vec, abp in rec["renorm"]:
        for i in range(NE):
            ask(f"{tag}:factors[{i}]=solution", z3.And(pc, R(vec[i]) != sol[i]), f"RenormAbundance does not receive component {i} of the solution of A r = b")
        if abp != Ptr("ab", 0):
            res["viol"].append({"key": f"{tag}:RenormAbundance-args", "what": "RenormAbundance is not applied to the caller's abundances", "replay": {"case": case.name, "target": tdir}})
    pcr = z3.Or([pc for pc, _, _ in rec["renorm"]])
    # success without renormalising is right only where nothing is left to do: every current element total is exactly
    # its stored reference ratio times the hydrogen nuclei (totals and nuclei as the driver itself read them)
    s.push()
    s.add(inv_axioms())
    off = z3.Or([r["curE"][i] != ref[i] * r["curHn"] for i in range(NE)])
    ask(f"{tag}:SUCCESS=>renormalised", z3.And(retz == 0, z3.Not(pcr), r["curHn"] != 0, off),
        "Naunet::Renorm returns NAUNET_SUCCESS without calling RenormAbundance although an element total differs from reference ratio x hydrogen nuclei",
        replay=lambda: {"replay_note": "path of the compiled Naunet::Renorm: the element totals in the model satisfy the driver's own test for skipping the renormalisation and differ from the reference"})
    s.pop()
    for i in range(NE):
        ask(f"{tag}:stored-reference[{i}]-preserved", R(post[i]) != ref[i], f"Naunet::Renorm overwrites the stored reference ratio of element {i} (ab_ref_): every later renormalisation aims at a different target",
            replay=lambda: _native_two_calls(case, p, tdir))
    ask(f"{tag}:reach-SUCCESS", retz == 0, "", expect="sat")
    _set_reference(case, p, tdir, res, r)
    res["solver_s"] += time.time() - t0


def _set_reference(case, p, tdir, res, r):
    """SetReferenceAbund(ref, opt): opt 0 stores ref[i]/ref[H], opt 1 stores GetElementAbund(ref,i)/GetHNuclei(ref)"""
    from ..irsym import Machine, fdiv

    M, fo, dem, NE, NS, size = r["M"], r["fo"], r["dem"], r["NE"], r["NS"], r["size"]
    macros = p.macros(tdir)
    fname = next((n for n, d in dem.items() if d.startswith("Naunet::SetReferenceAbund(")), None)
    if fname is None:
        raise Inconclusive("no Naunet::SetReferenceAbund")
    tag = f"{case.name}/{tdir}:Naunet::SetReferenceAbund"
    E = [z3.Real(f"E{i}") for i in range(NE)]
    Hn = z3.Real("Hnuclei")
    for n, d in _callees(M, fname).items():
        d = d or ""
        if d.startswith("GetElementAbund("):
            def gea(M_, st_, a):
                if not isinstance(a[1], int) or not (0 <= a[1] < NE):
                    raise Inconclusive("GetElementAbund index")
                return st_, E[a[1]]
            M.stubs[n] = gea
        elif d.startswith("GetHNuclei("):
            M.stubs[n] = lambda M_, st_, a: (st_, Hn)
    s = z3.Solver()
    s.set("timeout", 60_000)
    s.add(inv_axioms())
    for opt in (0, 1):
        st = State()
        st.size["this"] = size
        st.mem["this"] = {fo["ab_ref_"] + 8 * i: z3.Real(f"old{i}") for i in range(NE)}
        n_in = NE if opt == 0 else NS
        refin = [z3.Real(f"in{i}") for i in range(n_in)]
        H.make_array(st, "refin", n_in, refin)
        _, ret = M.run_function(fname, st, [Ptr("this", 0), Ptr("refin", 0), opt])
        for i in range(NE):
            got = st.load("this", fo["ab_ref_"] + 8 * i)
            exp = fdiv(refin[i], refin[macros["IDX_ELEM_H"]]) if opt == 0 else fdiv(E[i], Hn)
            name = f"{tag}:opt{opt}[{i}]"
            rr = str(s.check(R(got) != R(exp)))
            if rr == "unsat":
                res["ok"].append(name)
            elif rr == "sat":
                res["viol"].append({"key": name, "what": f"SetReferenceAbund(opt={opt}) stores {z3.simplify(R(got))} for element {i}, not {z3.simplify(R(exp))}", "replay": {"case": case.name, "target": tdir, "replay_note": "terms of the compiled function"}})
            else:
                res["unknown"].append((name, "solver " + rr))


RENORM_MOCK = r"""
#include <stdio.h>
#include <stdlib.h>
#include <math.h>
#include <sundials/sundials_types.h>
struct _generic_N_Vector { double *data; long n; };
struct _generic_SUNMatrix { double *data; long nr, nc; };
extern "C" {
int SUNContext_Create(void*, SUNContext*) { return 0; } int SUNContext_Free(SUNContext*) { return 0; }
N_Vector N_VNew_Serial(sunindextype n, SUNContext) { N_Vector v = new _generic_N_Vector(); v->n = n; v->data = new double[n](); return v; }
N_Vector N_VMake_Serial(sunindextype n, realtype *d, SUNContext) { N_Vector v = new _generic_N_Vector(); v->n = n; v->data = d; return v; }
void N_VDestroy(N_Vector) {} void N_VConst(realtype c, N_Vector v) { for (long i = 0; i < v->n; i++) v->data[i] = c; }
realtype *N_VGetArrayPointer(N_Vector v) { return v->data; }
SUNMatrix SUNDenseMatrix(sunindextype r, sunindextype c, SUNContext) { SUNMatrix A = new _generic_SUNMatrix(); A->nr = r; A->nc = c; A->data = new double[r * c](); return A; }
void SUNMatDestroy(SUNMatrix) {}
realtype *SHIM_SM_ELEMENT_D(SUNMatrix A, sunindextype i, sunindextype j) { return &A->data[i * A->nc + j]; }
SUNLinearSolver SUNLinSol_Dense(N_Vector, SUNMatrix, SUNContext) { return 0; }
int SUNLinSolFree(SUNLinearSolver) { return 0; } int SUNLinSolSetup(SUNLinearSolver, SUNMatrix) { return 0; }
// the integrator is not used by this replay: link-only definitions
N_Vector N_VNewEmpty_Serial(sunindextype n, SUNContext) { N_Vector v = new _generic_N_Vector(); v->n = n; return v; }
void N_VSetArrayPointer(realtype *d, N_Vector v) { v->data = d; }
SUNMatrix SUNSparseMatrix(sunindextype, sunindextype, sunindextype, int, SUNContext) { return 0; } int SUNMatZero(SUNMatrix) { return 0; }
SUNLinearSolver SUNLinSol_KLU(N_Vector, SUNMatrix, SUNContext) { return 0; }
void *CVodeCreate(int, SUNContext) { static int x; return &x; } void CVodeFree(void **) {}
int CVodeSetErrFile(void *, FILE *) { return 0; } int CVodeSetMaxNumSteps(void *, long) { return 0; }
int CVodeInit(void *, CVRhsFn, realtype, N_Vector) { return 0; } int CVodeSStolerances(void *, realtype, realtype) { return 0; }
int CVodeSetLinearSolver(void *, SUNLinearSolver, SUNMatrix) { return 0; } int CVodeSetJacFn(void *, CVLsJacFn) { return 0; }
int CVodeSetUserData(void *, void *) { return 0; } int CVodeReInit(void *, realtype, N_Vector) { return 0; }
int CVode(void *, realtype tout, N_Vector, realtype *tret, int) { *tret = tout; return 0; }
int CVodeGetNumSteps(void*, long*){return 0;} int CVodeGetNumRhsEvals(void*, long*){return 0;} int CVodeGetNumLinSolvSetups(void*, long*){return 0;}
int CVodeGetNumErrTestFails(void*, long*){return 0;} int CVodeGetNumNonlinSolvIters(void*, long*){return 0;} int CVodeGetNumNonlinSolvConvFails(void*, long*){return 0;}
int CVodeGetNumJacEvals(void*, long*){return 0;} int CVodeGetNumGEvals(void*, long*){return 0;}
// dense direct solve as SUNDIALS does it: x <- b, then solve in place (Gaussian elimination with pivoting)
int SUNLinSolSolve(SUNLinearSolver, SUNMatrix A, N_Vector x, N_Vector b, realtype) {
    long n = A->nr; double *a = new double[n * n];
    for (long i = 0; i < n * n; i++) a[i] = A->data[i];
    for (long i = 0; i < n; i++) x->data[i] = b->data[i];
    for (long c = 0; c < n; c++) {
        long pv = c; for (long r = c + 1; r < n; r++) if (fabs(a[r * n + c]) > fabs(a[pv * n + c])) pv = r;
        for (long j = 0; j < n; j++) { double t = a[c * n + j]; a[c * n + j] = a[pv * n + j]; a[pv * n + j] = t; }
        double t = x->data[c]; x->data[c] = x->data[pv]; x->data[pv] = t;
        for (long r = c + 1; r < n; r++) { double f = a[r * n + c] / a[c * n + c]; for (long j = c; j < n; j++) a[r * n + j] -= f * a[c * n + j]; x->data[r] -= f * x->data[c]; }
    }
    for (long r = n - 1; r >= 0; r--) { for (long j = r + 1; j < n; j++) x->data[r] -= a[r * n + j] * x->data[j]; x->data[r] /= a[r * n + r]; }
    return 0;
}
}
#include "naunet.h"
#include "naunet_physics.h"
int Fex(realtype, N_Vector, N_Vector, void *) { return 0; }
int Jac(realtype, N_Vector, N_Vector, SUNMatrix, void *, N_Vector, N_Vector, N_Vector) { return 0; }
int main() {
    Naunet n;
    double y0[NEQUATIONS], y[NEQUATIONS];
    for (int i = 0; i < NEQUATIONS; i++) y0[i] = 1.0 + 0.37 * i;
    n.SetReferenceAbund(y0, 1);
    double Hn = GetHNuclei(y0);
    for (int call = 1; call <= 3; call++) {
        for (int i = 0; i < NEQUATIONS; i++) y[i] = y0[i] * (1.0 + 0.01 * ((i * 7 + call * 3) % 5));
        n.Renorm(y);
        double H2 = GetHNuclei(y);
        for (int e = 0; e < NELEMENTS; e++) printf("call %d elem %d got %.17g want %.17g\n", call, e, GetElementAbund(y, e) / H2, GetElementAbund(y0, e) / Hn);
    }
    return 0;
}
"""


def _native_two_calls(case, p, tdir):
    """replay: the real naunet.cpp + naunet_renorm.cpp + naunet_physics.cpp with a dense direct solver; three
    successive Renorm calls after one SetReferenceAbund"""
    import os
    import subprocess

    if ode.KIND[tdir] == "odeint":
        return {"replay_note": "odeint: aliasing fact of the compiled Naunet::Renorm (no native build without Boost)"}
    t = p.tdir(tdir)
    b = os.path.join(t, "native_c16")
    os.makedirs(b, exist_ok=True)
    with open(os.path.join(b, "mock.cpp"), "w") as fh:
        fh.write(RENORM_MOCK)
    srcs = [os.path.join(t, "src", f) for f in ("naunet.cpp", "naunet_renorm.cpp", "naunet_physics.cpp", "naunet_constants.cpp")]
    cmd = ["g++", "-std=c++14", "-O0", "-w", "-I", proj.SHIM, "-I", os.path.join(t, "include"), os.path.join(b, "mock.cpp"), *srcs, "-o", os.path.join(b, "renorm"), "-lm"]
    r = subprocess.run(cmd, capture_output=True, text=True)
    if r.returncode != 0:
        return {"replay_note": "native build unavailable: " + r.stderr[-300:]}
    out = subprocess.run([os.path.join(b, "renorm")], capture_output=True, text=True, timeout=60).stdout
    bad = []
    for l in out.splitlines():
        w = l.split()
        got, want = float(w[5]), float(w[7])
        if not (abs(got - want) <= 1e-9 * max(abs(want), 1e-300)):
            bad.append(l)
    return {"native_reproduced": bool(bad), "native_mismatches": bad[:6], "replay_cmd": " ".join(cmd)}


def main(pid, tier):
    chk = Check("C16", tier)
    proj.ensure_venv()
    cs = cases(tier == "thorough")
    ctx = mp.get_context("fork")
    # one fresh process per unit of work: z3's behaviour on the non-linear queries depends on what the
    # process has built before, so units never share a process
    with ctx.Pool(processes=12, maxtasksperchild=1) as pool:
        results = pool.map(_work, [(c, tier, w) for c in cs for w in ("functions", "class")], chunksize=1)
    for r in results:
        chk.programs += r["programs"]
        chk.solver_s += r["solver_s"]
        chk.functions.update(r["functions"])
        chk.xc.merge(r.get("xcheck"))
        for n in r["ok"]:
            chk.ok(n)
            chk.nontrivial.add(n)
        for n, w in r["unknown"]:
            chk.unknown(n, w)
        for v in r["viol"]:
            chk.violation(v["key"], v["what"], v["replay"])
        for e in r["errors"]:
            chk.harness_error(f"{r['case']}: {e}")
        chk.notes += [f"{r['case']}: {n}" for n in r["notes"]]
        for s_ in r["samples"]:
            chk.sample(s_)
    chk.bounds = {"corpus": [c.name for c in cs], "back_ends": ["cvode dense", "odeint"], "symbolic": "all positive abundance vectors, all solutions r of A(ab) r = b"}
    chk.assumptions = ["the linear solve (SUNLinSol / uBLAS LU) is the constraint A r = b; A nonsingular is assumed for 'identity when ratios match' (r=1 is then the unique solution)",
                       "reference ratio of hydrogen is 1 (SetReferenceAbund normalises by it)", "ab > 0, hydrogen nuclei > 0; real arithmetic",
                       "elements = atomic species present in the network (generator's definition); 'identity' is checked for networks whose molecules consist of such elements only"]
    chk.extra["repo_fingerprint"] = proj.repo_fingerprint()
    chk.extra["stubs"] = H.STUB_DOC
    return chk.finish(rule="one obligation = one z3 query (polynomial identity over the compiled renormalisation code) per (network, back-end, element/species)")
