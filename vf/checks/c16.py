"""C16 -- renormalisation restores the reference elemental abundances.

InitRenorm / RenormAbundance / GetElementAbund / GetHNuclei of the rendered
project are executed symbolically; the linear solve in between is the constraint
A(ab) r = b with b_H = 1 (what SetReferenceAbund stores)."""
from __future__ import annotations

import concurrent.futures as cf
import multiprocessing as mp
import time
import traceback
from fractions import Fraction

import z3

from .. import harness as H, irsym, ode, proj
from ..corpus import Case, rx
from ..irsym import DIVZERO_SEEN, Inconclusive, Ptr, R, State, inv_axioms, is_sym
from ..report import Check


def cases(thorough):
    out = []
    out.append(Case("RN-HCO", {"reactions": [rx(["H", "H"], ["H2"]), rx(["C", "O"], ["CO"]), rx(["H", "CO"], ["HCO"]), rx(["OH", "H"], ["H2O"]), rx(["O", "H"], ["OH"]), rx(["C", "H2"], ["CH2"])], "network": {}}))
    out.append(Case("RN-ions", {"reactions": [rx(["H", "CR"], ["H+", "e-"], t=101), rx(["H+", "e-"], ["H"]), rx(["He", "CR"], ["He+", "e-"], t=101), rx(["He+", "H"], ["He", "H+"]), rx(["H2", "H+"], ["H3+"]), rx(["H3+", "e-"], ["H2", "H"]), rx(["He++", "E"], ["He+"])], "network": {"required_species": ["H2"]}}))
    out.append(Case("RN-deut", {"reactions": [rx(["H", "D"], ["HD"]), rx(["HD", "H+"], ["D+", "H2"]), rx(["oH2", "D+"], ["pH2D+"]), rx(["N2", "D+"], ["N2D+"]), rx(["N", "N"], ["N2"])], "network": {"required_species": ["H+", "oH2"]}}))
    out.append(Case("RN-ice", {"reactions": [rx(["H", "CO"], ["#HCO"]), rx(["#H", "#CO"], ["#HCO"]), rx(["H"], ["#H"]), rx(["CO"], ["#CO"]), rx(["C", "O"], ["CO"]), rx(["#HCO"], ["H", "CO"])], "network": {}}))
    out.append(Case("RN-grain", {"reactions": [rx(["H", "H"], ["H2"]), rx(["GRAIN0", "e-"], ["GRAIN-"]), rx(["GRAIN-", "H+"], ["GRAIN0", "H"]), rx(["H", "CR"], ["H+", "e-"], t=101)], "network": {}}, tags={"grain"}))
    # a molecule none of whose elements is present as an atomic species (O2 without O)
    out.append(Case("RN-missing-atom", {"reactions": [rx(["H", "H"], ["H2"]), rx(["O2", "C"], ["CO", "O2"]), rx(["C", "H"], ["CH"])], "network": {}}))
    if thorough:
        out.append(Case("RN-SiS", {"reactions": [rx(["Si", "O"], ["SiO"]), rx(["S", "O"], ["SO"]), rx(["Si+", "e-"], ["Si"]), rx(["SiO", "H+"], ["Si+", "OH"]), rx(["O", "H"], ["OH"]), rx(["H", "H"], ["H2"]), rx(["Si", "CR"], ["Si+", "e-"], t=101), rx(["Mg", "H+"], ["Mg+", "H"]), rx(["Fe", "H+"], ["Fe+", "H"])], "network": {}}))
    return out


def analyse(case, tier):
    res = {"case": case.name, "ok": [], "unknown": [], "viol": [], "errors": [], "notes": [], "samples": [], "solver_s": 0.0, "programs": 0, "functions": []}
    try:
        _analyse(case, tier, res)
    except Exception as e:
        res["errors"].append(f"{type(e).__name__}: {e}\n{traceback.format_exc()[-1500:]}")
    return res


def _analyse(case, tier, res):
    p = proj.render(case.name, case.with_targets([proj.TARGETS["dense"], proj.TARGETS["odeint"]]))
    if not p.ok:
        res["notes"].append(f"generator refused: {p.meta.get('error')}")
        return
    meta = p.meta
    for tdir in ("cvode_dense", "odeint_rosenbrock4"):
        if not p.target_ok(tdir):
            res["notes"].append(f"{tdir}: {p.meta['targets'][tdir].get('error')}")
            continue
        res["programs"] += 1
        try:
            _one(case, p, meta, tdir, res)
        except Inconclusive as e:
            res["unknown"].append((f"{case.name}/{tdir}", f"encoder: {e}"))


def _one(case, p, meta, tdir, res):
    macros = p.macros(tdir)
    NS, NE = macros["NSPECIES"], macros["NELEMENTS"]
    if NE == 0 or "IDX_ELEM_H" not in macros:
        res["notes"].append(f"{tdir}: no hydrogen element -> Renorm is compiled out")
        return
    kind = ode.KIND[tdir]
    L = H.Loaded(p, tdir, tus=["naunet_renorm.cpp", "naunet_physics.cpp", "naunet_constants.cpp"])
    if L.errors:
        tu, err = next(iter(L.errors.items()))
        first = next((l for l in err.splitlines() if "error:" in l), err[:200])
        if "naunet_renorm" in tu and "/vf/shim/" not in first and not any(w in first for w in ("undeclared identifier", "redefinition")):
            m = __import__("re").search(r":(\d+):\d+: error", first)
            line = ""
            try:
                line = open(__import__("os").path.join(p.tdir(tdir), "src", tu)).read().splitlines()[int(m.group(1)) - 1].strip()
            except Exception:
                pass
            res["viol"].append({"key": f"{case.name}/{tdir}:renorm-invalid-c", "what": f"emitted renormalisation code is not valid C++: {first[-120:]} | {line[:120]}", "replay": {"case": case.name, "target": tdir, "stderr": err[-800:], "source_line": line, "spec": case.spec, "replay_note": "clang++-14 rejects the emitted naunet_renorm.cpp"}})
        else:
            res["unknown"].append((f"{case.name}/{tdir}:compile", first[-200:]))
        return
    M = L.M
    del DIVZERO_SEEN[:]
    tag = f"{case.name}/{tdir}"
    ab = [z3.Real(f"ab{i}") for i in range(NS)]
    r = [z3.Real(f"r{i}") for i in range(NE)]
    st = State()
    H.make_array(st, "ab", NS, ab)
    H.make_array(st, "A.data", NE * NE)
    st.size["A"] = 24
    dims = {"A": ("A.data", NE, NE)}
    M.stubs["SHIM_SM_ELEMENT_D"] = ode._mat_stub(dims)
    L.add_pattern_stub(r"ublas::matrix<double>::operator\(\)\(unsigned long, unsigned long\)", ode._mat_stub(dims))
    fn = L.find(r"^InitRenorm\(")
    M.run_function(fn, st, [Ptr("ab", 0), Ptr("A", 0)])
    res["functions"] += [f"{tdir}:InitRenorm", f"{tdir}:RenormAbundance", f"{tdir}:GetElementAbund", f"{tdir}:GetHNuclei"]
    cells = st.cells("A.data")
    A = [[cells.get(8 * (i * NE + j)) for j in range(NE)] for i in range(NE)]
    if any(v is None for row in A for v in row):
        res["viol"].append({"key": f"{tag}:matrix-unwritten", "what": "InitRenorm leaves cells of the coupling matrix unwritten", "replay": {"case": case.name}})
        return
    divz = list(DIVZERO_SEEN)
    # RenormAbundance on the solution r
    st2 = State()
    H.make_array(st2, "ab", NS, ab)
    if kind == "odeint":
        H.make_array(st2, "r.data", NE, r)
        st2.size["rvec"] = 16
        L.add_pattern_stub(r"ublas::vector<double>::operator\[\]\(unsigned long\)", ode._vec_stub({"rvec": "r.data"}))
        L.add_pattern_stub(r"ublas::vector<double>::operator\(\)\(unsigned long\)", ode._vec_stub({"rvec": "r.data"}))
        M.run_function(L.find(r"^RenormAbundance\("), st2, [Ptr("rvec", 0), Ptr("ab", 0)])
    else:
        H.make_array(st2, "r", NE, r)
        M.run_function(L.find(r"^RenormAbundance\("), st2, [Ptr("r", 0), Ptr("ab", 0)])
    abn = [st2.load("ab", 8 * i) for i in range(NS)]
    divz += list(DIVZERO_SEEN)
    oob = list(M.oob)
    # element totals through the generated helper, on old and new abundances
    def elem_abund(vec, e):
        s_ = State()
        H.make_array(s_, "v", NS, vec)
        _, v = M.run_function(L.find(r"^GetElementAbund\("), s_, [Ptr("v", 0), e])
        return v

    def hnuc(vec):
        s_ = State()
        H.make_array(s_, "v", NS, vec)
        _, v = M.run_function(L.find(r"^GetHNuclei\("), s_, [Ptr("v", 0)])
        return v

    s = z3.Solver()
    s.set("timeout", 120_000)
    s.add([a > 0 for a in ab])
    t0 = time.time()
    eH = macros["IDX_ELEM_H"]
    Hold = R(hnuc(ab))
    s.add(Hold > 0)
    s.add(inv_axioms())
    b = [sum((R(A[i][j]) * r[j] for j in range(NE)), z3.RealVal(0)) for i in range(NE)]

    def ask(name, bad, what, extra=()):
        s.push()
        for e in extra:
            s.add(e)
        s.add(bad)
        rr = str(s.check())
        m = s.model() if rr == "sat" else None
        s.pop()
        if rr == "unsat":
            res["ok"].append(name)
            if len(res["samples"]) < 3:
                res["samples"].append({"obligation": name, "verdict": "unsat"})
        elif rr == "sat":
            pt = {str(d): str(m[d]) for d in m.decls()[:20]}
            res["viol"].append({"key": name, "what": what, "replay": {"case": case.name, "target": tdir, "model": pt, "replay_note": "polynomial identity over the compiled renormalisation code; point evaluates both sides exactly"}})
        else:
            res["unknown"].append((name, "solver " + rr))

    # literal zero divisors (e.g. mass number 0.0 of a grain species)
    if divz:
        res["viol"].append({"key": f"{tag}:div-by-literal-zero", "what": f"renormalisation divides by the literal 0.0 ({len(divz)} terms), abundances become NaN/inf", "replay": {"case": case.name, "target": tdir, "spec": case.spec, "replay_note": "division by the constant 0.0 is present in the compiled IR (see naunet_renorm.cpp)"}})
    else:
        res["ok"].append(f"{tag}:no-literal-zero-divisor")
    for cond, w in oob:
        res["viol"].append({"key": f"{tag}:oob", "what": f"renormalisation accesses memory out of bounds: {w}", "replay": {"case": case.name}})
    # (1) E_i(ab') = b_i * H(ab)    [H(ab') = H(ab) follows for b_H = 1, obligation (2)]
    for e in range(NE):
        En = R(elem_abund(abn, e))
        ask(f"{tag}:element{e}:E(ab')=b*H(ab)", En != b[e] * Hold, f"after renormalisation the total of element {e} is not reference ratio x hydrogen nuclei")
    Hn = R(hnuc(abn))
    ask(f"{tag}:H-nuclei-preserved", Hn != Hold, "renormalisation changes the hydrogen-nuclei total although the reference ratio of H is 1", extra=[b[eH] == 1])
    # (3) generated helper equals the count-weighted sum of abundances
    slots = {sp["name"]: macros["IDX_" + sp["alias"]] for sp in meta["species"]}
    for e, el in enumerate(meta["elements"]):
        ename = next(iter(el["element_count"]))
        eidx = macros["IDX_ELEM_" + ename]
        ref = sum((sp["element_count"].get(ename, 0) * ab[slots[sp["name"]]] for sp in meta["species"] if sp["element_count"].get(ename, 0)), z3.RealVal(0))
        ask(f"{tag}:GetElementAbund[{ename}]", R(elem_abund(ab, eidx)) != ref, f"GetElementAbund({ename}) is not the count-weighted sum of abundances")
    # (4) electrons untouched
    for sp in meta["species"]:
        if sp["is_electron"]:
            i = slots[sp["name"]]
            ask(f"{tag}:electron-untouched", R(abn[i]) != ab[i], "renormalisation rescales the electron abundance")
    # (5) identity when the ratios already match: r = 1 solves A r = b_current and every factor is 1.
    # Only meaningful when every element of every molecule is itself renormalised (present as an atomic
    # species): otherwise the mass weights of a molecule do not add up to its mass number by construction.
    one = [(rv, z3.RealVal(1)) for rv in r]
    complete = all(all(en in [next(iter(x["element_count"])) for x in meta["elements"]] for en in sp["element_count"]) for sp in meta["species"] if not sp["is_electron"])
    if complete and not divz:
        for e in range(NE):
            be = z3.substitute(b[e], *one)
            ask(f"{tag}:A*1=current-ratio[{e}]", be * Hold != R(elem_abund(ab, e)), "A(ab)*1 is not the current elemental ratio: renormalising an already matching state is not the identity")
        for sp in meta["species"]:
            i = slots[sp["name"]]
            ask(f"{tag}:identity[{sp['name']}]", z3.substitute(R(abn[i]), *one) != ab[i], f"with matching ratios (r=1) species {sp['name']} is rescaled")
    else:
        # species made only of non-renormalised elements must at least be left untouched
        elnames = [next(iter(x["element_count"])) for x in meta["elements"]]
        for sp in meta["species"]:
            if not sp["is_electron"] and not any(en in elnames for en in sp["element_count"]):
                i = slots[sp["name"]]
                ask(f"{tag}:untouched[{sp['name']}]", R(abn[i]) != ab[i], f"species {sp['name']} shares no element with the renormalised ones but is rescaled")
    res["solver_s"] += time.time() - t0


def _work(a):
    return analyse(*a)


def main(pid, tier):
    chk = Check("C16", tier)
    proj.ensure_venv()
    cs = cases(tier == "thorough")
    ctx = mp.get_context("fork")
    with cf.ProcessPoolExecutor(max_workers=8, mp_context=ctx) as ex:
        results = list(ex.map(_work, [(c, tier) for c in cs]))
    for r in results:
        chk.programs += r["programs"]
        chk.solver_s += r["solver_s"]
        chk.functions.update(r["functions"])
        for n in r["ok"]:
            chk.ok(n)
            chk.nontrivial.add(n)
        for n, w in r["unknown"]:
            chk.unknown(n, w)
        for v in r["viol"]:
            chk.violation(v["key"], v["what"], v["replay"])
        for e in r["errors"]:
            chk.harness_error(f"{r['case']}: {e}")
        chk.notes += [f"{r['case']}: {n}" for n in r["notes"]]
        for s_ in r["samples"]:
            chk.sample(s_)
    chk.bounds = {"corpus": [c.name for c in cs], "back_ends": ["cvode dense", "odeint"], "symbolic": "all positive abundance vectors, all solutions r of A(ab) r = b"}
    chk.assumptions = ["the linear solve (SUNLinSol / uBLAS LU) is the constraint A r = b; A nonsingular is assumed for 'identity when ratios match' (r=1 is then the unique solution)",
                       "reference ratio of hydrogen is 1 (SetReferenceAbund normalises by it)", "ab > 0, hydrogen nuclei > 0; real arithmetic",
                       "elements = atomic species present in the network (generator's definition); 'identity' is checked for networks whose molecules consist of such elements only"]
    chk.extra["repo_fingerprint"] = proj.repo_fingerprint()
    chk.extra["stubs"] = H.STUB_DOC
    return chk.finish(rule="one obligation = one z3 query (polynomial identity over the compiled renormalisation code) per (network, back-end, element/species)")
