"""C19 -- Solve integrates exactly the requested interval or reports failure.

Bounded model checking of the compiled `Naunet::Solve` / `HandleError` with the
integrator replaced by a nondeterministic stub (every flag an arbitrary integer,
every partial time an arbitrary real), plus one inductive step per recovery
level (region mode: the outer loop's back edge is cut).
"""
from __future__ import annotations

import os
import re
import subprocess
import time
from fractions import Fraction

import z3

from .. import harness as H
from .. import proj
from ..irsym import CUT, Inconclusive, Machine, Ptr, R, RetSet, State, Throw, is_sym
from ..report import Check

SUCCESS, FAIL = 0, 1
L10 = z3.Function("log10", z3.RealSort(), z3.RealSort())
P10 = z3.Function("pow10", z3.RealSort(), z3.RealSort())


class Integ:
    """nondeterministic integrator whose 'solution' is y(t) = y0 + t"""

    def __init__(self, neq, fault_ok=lambda n: True, indexed=True, script=None):
        self.neq = neq
        self.indexed = indexed
        self.script = script  # {(level, step): concrete flag}: flags concrete, times symbolic
        self.assumes = []
        self.flags = []  # (flag, tret, tout) per CVode call site
        self.reinit = []
        self.log_args = []
        self.pow_calls = []
        self.fault_ok = fault_ok
        self.setup_flags = []
        self.calls = []  # (path condition, flag) of every executed integrator call

    def stubs(self):
        s = {
            "log10": self.log10, "pow": self.pow, "CVode": self.cvode, "CVodeReInit": self.reinit_,
            "CVodeFree": lambda M, st, a: (st, None),
            "N_VSetArrayPointer": self.set_array,
            "CVodeCreate": lambda M, st, a: (st, Ptr("cvmem", 0)),
        }
        for nm in ("CVodeSetErrFile", "CVodeSetMaxNumSteps", "CVodeInit", "CVodeSStolerances", "CVodeSetLinearSolver", "CVodeSetJacFn", "CVodeSetUserData"):
            s[nm] = self.setup(nm)
        return s

    def setup(self, nm):
        def f(M, st, a):
            g = M.fresh_int("setup_" + nm)
            self.setup_flags.append((nm, g))
            if nm == "CVodeInit":
                self._snapshot(st)
            return st, g

        return f

    # CVODE keeps its own copy of the state: CVodeInit / CVodeReInit copy y0 from the vector *when they are called*,
    # CVode advances that copy and writes it to the vector.  What the caller stores in the array between a
    # re-initialisation and the next CVode call is not seen by the integrator.
    def _internal(self, st):
        if st.load("integ_y", 0) is None:  # (states are overlays: look through the parents)
            st.size["integ_y"] = 8 * self.neq
            st.mem["integ_y"] = {8 * i: z3.Real(f"integ_internal_{i}") for i in range(self.neq)}

    def _snapshot(self, st):
        self._internal(st)
        for i in range(self.neq):
            st.store("integ_y", 8 * i, R(st.load("ab", 8 * i)))

    def set_array(self, M, st, a):
        st.store("integ", 8, a[0])
        return st, None

    def log10(self, M, st, a):
        x = R(a[0])
        self.log_args.append(x)
        return st, L10(x)

    def pow(self, M, st, a):
        if a[0] != 10:
            raise Inconclusive("pow with base != 10 in the recovery ladder")
        x = R(a[1])
        v = P10(x)
        self.pow_calls.append((x, v))
        return st, v

    def _ctr(self, st, off):
        v = st.load("integ", off)
        return v if isinstance(v, int) else None

    def cvode(self, M, st, a):
        mem, tout, yv, tret, itask = a
        lvl, step = self._ctr(st, 24), self._ctr(st, 16)
        if self.script is not None:
            f, tr = self.script.get((lvl, step), 0), z3.Real(f"tret_L{lvl}_S{step}")
            st.store("integ", 16, step + 1)
        elif self.indexed and lvl is not None and step is not None:
            # the j-th call of a level is the same nondeterministic choice on every
            # (mutually exclusive) path that reaches it
            f, tr = z3.Int(f"flag_L{lvl}_S{step}"), z3.Real(f"tret_L{lvl}_S{step}")
            st.store("integ", 16, step + 1)
        else:
            f, tr = M.fresh_int("flag"), M.fresh_real("tret")
        if self.script is None and not self.indexed and lvl is not None and not self.fault_ok(lvl):
            f = 0  # levels beyond the symbolic ones succeed: a concrete flag keeps the run free of infeasible forks
        tcur = R(st.load("integ", 0))
        tout = R(tout)
        # fresh symbols belong to one call site only: no guard needed (and much cheaper)
        pc = st.pathcond() if self.indexed else z3.BoolVal(True)
        if self.script is not None or isinstance(f, int):
            self.assumes.append(tr == tout if f >= 0 else z3.And(tcur <= tr, tr < tout))
        else:
            self.assumes.append(z3.Implies(z3.And(pc, f >= 0), tr == tout))
            self.assumes.append(z3.Implies(z3.And(pc, f < 0), z3.And(tcur <= tr, tr < tout)))
        if self.script is None and lvl is not None and not self.fault_ok(lvl) and not isinstance(f, int):
            self.assumes.append(z3.Implies(pc, f == 0) if not self.indexed else z3.Implies(pc, f >= 0))
        if not self.indexed and self.script is None and not isinstance(f, int):
            # monolithic sanity run: flags range over [-8, 1] (every class the ladder
            # distinguishes); the unbounded range is covered by the per-level induction
            self.assumes.append(z3.And(f >= -8, f <= 1))
        self._internal(st)
        for i in range(self.neq):
            v = R(st.load("integ_y", 8 * i)) + (tr - tcur)
            st.store("integ_y", 8 * i, v)
            st.store("ab", 8 * i, v)
        st.store("integ", 0, tr)
        if M.check(st, tret, 8, "CVode tret"):
            st.store(tret.obj, tret.off, tr)
        self.flags.append((f, tr, tout))
        self.calls.append((st.pathcond(), f))
        return st, f

    def reinit_(self, M, st, a):
        lvl = self._ctr(st, 24)
        if lvl is not None:
            g = z3.Int(f"reinit_L{lvl + 1}") if self.indexed else M.fresh_int("reinit")
            if self.script is not None:
                g = self.script.get(("reinit", lvl + 1), 0)
            st.store("integ", 24, lvl + 1)
            st.store("integ", 16, 0)
        else:
            g = M.fresh_int("reinit")
        self.reinit.append(g)
        st.store("integ", 0, R(a[1]))
        self._snapshot(st)
        return st, g

    def axioms(self):
        ax = []
        for x in self.log_args:
            ax.append(z3.Implies(x > 0, P10(L10(x)) == x))
        for x, v in self.pow_calls:
            ax.append(v > 0)
        # monotonicity against the anchors pow(10, log10 a) = a (needed when a level is
        # left early and the chain of consecutive sub-steps does not reach the last one)
        if len(self.pow_calls) * len(self.log_args) <= 4000:
            for x, v in self.pow_calls:
                for a in self.log_args:
                    ax.append(z3.Implies(z3.And(a > 0, x < L10(a)), v < a))
                    ax.append(z3.Implies(z3.And(a > 0, x == L10(a)), v == a))
        for (x1, v1), (x2, v2) in zip(self.pow_calls, self.pow_calls[1:]):
            ax.append(z3.Implies(x1 < x2, v1 < v2))
            ax.append(z3.Implies(x1 == x2, v1 == v2))
        return ax


def class_fields(project, tdir):
    """private data members of class Naunet in declaration order (from the real header, preprocessed)"""
    inc = os.path.join(project.tdir(tdir), "include")
    r = subprocess.run([proj.CLANG, "-E", "-P", "-x", "c++", "-std=c++14", "-I", proj.SHIM, "-I", inc, os.path.join(inc, "naunet.h")], capture_output=True, text=True)
    txt = r.stdout
    body = txt[txt.index("class Naunet") :]
    priv = body[body.index("private:") :]
    priv = priv[: priv.index("};")]
    names = []
    for stmt in priv.split(";"):
        stmt = re.sub(r"\[.*\]", "[]", stmt.strip())
        if not stmt or "(" in stmt:
            continue
        m = re.search(r"(\w+)\s*(\[[^\]]*\])?\s*$", stmt)
        if m:
            names.append(m.group(1))
    return names


def setup_this(M, st, fields, neq, y0):
    offs, size, _ = M.struct_layout("%class.Naunet")
    if len(offs) != len(fields):
        raise Inconclusive(f"class Naunet: {len(offs)} IR fields vs {len(fields)} declared members")
    st.size["this"] = size
    st.mem["this"] = {}
    fo = {n: o for n, (o, _) in zip(fields, offs)}
    for i in range(neq):
        st.mem["this"][fo["ab_init_"] + 8 * i] = y0[i]
    st.mem["this"][fo["cv_y_"]] = Ptr("cv_y", 0)
    st.mem["this"][fo["cv_mem_"]] = Ptr("cvmem", 0)
    st.mem["this"][fo["errfp_"]] = Ptr("errfp", 0)
    return fo


def find_outer_loop(M, fn):
    cand = []
    for h, latches, body in M.loops(fn):
        if any(I.op == "call" and "@CVode(" in I.text for b in body for I in fn.blocks[b]):
            cand.append((len(body), h, latches, body))
    if not cand:
        raise Inconclusive("no loop around the CVode call in HandleError")
    cand.sort(reverse=True)
    return cand[0][1], cand[0][2], cand[0][3]


def retsplit(ret):
    """-> list of (guard, kind, value): kind in {'ret','cut'}"""
    out = []
    for g, v in RetSet.lift(ret):
        if isinstance(v, tuple) and v and v[0] == "$cut":
            out.append((g, "cut", v))
        else:
            out.append((g, "ret", v))
    return out


def check_level_induction(chk, project, tdir, neq, fields):
    """one inductive step per recovery level of HandleError"""
    ll, err = project.compile_ir(tdir, "naunet.cpp")
    if ll is None:
        chk.harness_error(f"{tdir}/naunet.cpp does not lower: {err[-300:]}")
        return
    level = 0
    int_phi_vals = None
    while True:
        level += 1
        if level > 12:
            chk.unknown(f"{tdir}:ladder", "more than 12 levels?")
            return
        integ = Integ(neq)
        st_ = H.base_stubs()
        st_.update(integ.stubs())
        M = Machine([ll], st_)
        M.deadline = time.time() + 90  # a level of the real ladder takes < 3 000 instructions (< 2 s); a shape that forks per sub-step is given up on
        dem = H.demangle(sorted(M.funcs))
        hname = next(n for n, d in dem.items() if d.startswith("Naunet::HandleError("))
        fn = M.funcs[hname]
        chk.functions.add(f"{tdir}:Naunet::HandleError")
        header, latches, body = find_outer_loop(M, fn)
        for l in latches:
            M.cut_edges[(fn.name, l, header)] = "CONTINUE"
        y0 = [z3.Real(f"y0_{i}") for i in range(neq)]
        dt_init, d = z3.Real("dt_init"), z3.Real("d")
        c, tau = z3.Int("c"), z3.Real("tau")
        ab_pre = [z3.Real(f"ab_{i}") for i in range(neq)]
        st = State()
        fo = setup_this(M, st, fields, neq, y0)
        for i in range(neq):
            st.mem["this"][fo["ab_tmp_"] + 8 * i] = z3.Real(f"abtmp_{i}")
        st.size["ab"] = 8 * neq
        st.mem["ab"] = {8 * i: ab_pre[i] for i in range(neq)}
        st.size["integ"] = 32
        st.size["integ_y"] = 8 * neq
        st.mem["integ_y"] = {8 * i_: z3.Real(f"integ_internal_{i_}") for i_ in range(neq)}
        tcur = z3.Real("tcur")
        st.mem["integ"] = {0: tcur, 8: Ptr("ab", 0), 16: 0, 24: 0}
        # run the pre-loop code with a concrete negative flag to define the loop-invariant SSA values
        M.frame_ctr += 1
        fr = M.frame_ctr
        for p_, a in zip(fn.params, [Ptr("this", 0), -1, Ptr("ab", 0), dt_init, z3.Real("t0_in")]):
            st.env[(fr, p_)] = a
        M.run_until(fn, fr, st, fn.entry, None, header)
        st.log.clear()
        # allocas holding the pending flag and the partial time
        allocas = [(I.res, re.match(r"alloca (\S+)", I.text).group(1)) for I in fn.blocks[fn.entry] if I.op == "alloca"]
        ai = [r for r, t in allocas if t.startswith("i32")]
        ad = [r for r, t in allocas if t.startswith("double")]
        if len(ai) != 1 or len(ad) != 1:
            raise Inconclusive(f"HandleError locals: {allocas}")
        pf, pt = st.get((fr, ai[0])), st.get((fr, ad[0]))
        # header phis: ints follow the latch arithmetic, reals are the remaining dt
        phis = [I for I in fn.blocks[header] if I.op == "phi"]
        if int_phi_vals is None:
            int_phi_vals = {}
            for I in phis:
                v = st.get((fr, I.res))
                if isinstance(v, int) and not isinstance(v, bool):
                    int_phi_vals[I.res] = v
        real_phis = [I.res for I in phis if I.text.startswith("phi double")]
        if len(real_phis) != 1:
            raise Inconclusive(f"expected one real loop-carried value (remaining dt), got {real_phis}")
        for I in phis:
            if I.res in int_phi_vals:
                st.env[(fr, I.res)] = int_phi_vals[I.res]
            elif I.res in real_phis:
                st.env[(fr, I.res)] = d
            else:
                st.env[(fr, I.res)] = M.fresh_int("junk")
        st.store(pf.obj, pf.off, c)
        st.store(pt.obj, pt.off, tau)
        t0 = time.time()
        _, ret = M.run_until(fn, fr, st, header, None, "$exit", phis_done=True)
        cuts = M.region_exits
        g_cut = z3.Or([g for g, _, _, _ in cuts] or [z3.BoolVal(False)])
        ab_post = [R(st.load("ab", 8 * i)) for i in range(neq)]

        def at_cut(f):
            """value of f(snapshot) on whichever cut edge was taken"""
            v = None
            for g, _, _, snap in reversed(cuts):
                x = f(snap)
                v = x if v is None else z3.If(g, x, v)
            return v

        latch = next(iter(latches))
        s = z3.Solver()
        s.set("timeout", 120_000)
        s.add(integ.assumes)
        s.add(integ.axioms())
        inv_pre = z3.And(c < 0, d > 0, d <= dt_init,
                         z3.Implies(z3.And(c >= -4, c <= -1), z3.And(*[ab_pre[i] == y0[i] + (dt_init - d) + tau for i in range(neq)], tau >= 0, tau < d, tcur == tau)))
        s.add(inv_pre)
        retz = R_int(ret) if ret is not CUT else z3.IntVal(-99)
        g_ret = z3.Not(g_cut) if ret is not CUT else z3.BoolVal(False)
        g_succ = z3.And(g_ret, retz == SUCCESS)
        g_fail = z3.And(g_ret, retz == FAIL)
        tag = f"{tdir}:level{level}"

        def ask(name, bad, expect="unsat"):
            t1 = time.time()
            r = str(s.check(bad))
            chk.solver_s += time.time() - t1
            chk.xc.sample(s, [bad], r, name)
            if expect == "unsat":
                if r == "unsat":
                    chk.ok(name)
                elif r == "sat":
                    m = s.model()
                    trace = {str(dd): str(m[dd]) for dd in m.decls() if str(dd).startswith(("flag", "tret", "c", "d", "tau", "dt_init", "reinit", "tcur"))}
                    confirm_ladder_violation(chk, project, tdir, name, trace, level)
                else:
                    chk.unknown(name, "solver " + r)
            else:
                if r == "sat":
                    chk.ok(name)
                else:
                    chk.harness_error(f"reachability twin {name}: {r} (vacuous harness?)")
            return r

        ask(f"{tag}:SUCCESS=>exact-interval", z3.And(g_succ, z3.Or([ab_post[i] != y0[i] + dt_init for i in range(neq)])))
        ask(f"{tag}:return-in-{{SUCCESS,FAIL}}", z3.And(g_ret, z3.Not(z3.Or(g_succ, g_fail))))
        ask(f"{tag}:unrecoverable-flag=>FAIL", z3.And(c < -4, c != -6, z3.Not(g_fail)))
        ask(f"{tag}:failing-reinit=>FAIL", z3.And(z3.Or(c >= -4, c == -6), z3.Int("reinit_L1") < 0, z3.Not(g_fail)))
        c_end = Iz_(st.load(pf.obj, pf.off))
        ask(f"{tag}:SUCCESS=>last-integrator-call-succeeded", z3.And(g_succ, c_end < 0))
        # a failure inside this level is never papered over by later calls of the same level
        ask(f"{tag}:SUCCESS=>no-failed-call-in-this-level", z3.And(g_succ, z3.Or([z3.And(pcj, Iz_(fj) < 0) for pcj, fj in integ.calls] or [z3.BoolVal(False)])))
        has_cut = bool(cuts)
        if has_cut:
            cp = at_cut(lambda sn: Iz_(sn["mem"][pf.obj][pf.off]))
            tau_post = at_cut(lambda sn: R(sn["mem"][pt.obj][pt.off]))
            tcur_post = at_cut(lambda sn: R(sn["mem"]["integ"][0]))
            d_post = at_cut(lambda sn: R(sn["phi"][real_phis[0]]))
            abc = [at_cut(lambda sn, i=i: R(sn["mem"]["ab"][8 * i])) for i in range(neq)]
            init_c = [at_cut(lambda sn, i=i: R(sn["mem"]["this"][fo["ab_init_"] + 8 * i])) for i in range(neq)]
            inv_post = z3.And(cp < 0, d_post > 0, d_post <= dt_init, *[init_c[i] == y0[i] for i in range(neq)],
                              z3.Implies(z3.And(cp >= -4, cp <= -1), z3.And(*[abc[i] == y0[i] + (dt_init - d_post) + tau_post for i in range(neq)], tau_post >= 0, tau_post < d_post, tcur_post == tau_post)))
            ask(f"{tag}:CONTINUE=>invariant", z3.And(g_cut, z3.Not(inv_post)))
            ask(f"{tag}:reach-CONTINUE", g_cut, expect="sat")
        else:
            # last level: whatever is not SUCCESS must be FAIL (no further retry)
            ask(f"{tag}:ladder-exhausted=>FAIL", z3.And(z3.Not(g_succ), z3.Not(g_fail)))
        ask(f"{tag}:reach-SUCCESS", g_succ, expect="sat")
        ask(f"{tag}:reach-FAIL", g_fail, expect="sat")
        chk.extra["states"] = chk.extra.get("states", 0) + M.merges + 1
        chk.extra["transitions"] = chk.extra.get("transitions", 0) + len(integ.flags) * 3 + len(integ.reinit) * 2
        chk.sample({"level": level, "substeps": len(integ.flags), "merged_branches": M.merges, "instructions": M.steps, "continue_edges": len(cuts), "encode_s": round(time.time() - t0, 2)})
        chk.notes.append(f"{tdir} level {level}: {len(integ.flags)} CVode call sites, {M.steps} IR instructions, {M.merges} merges")
        if not has_cut:
            chk.extra.setdefault("levels", {})[tdir] = level
            return
        # advance the integer loop-carried values through the latch block
        scratch = State(st)
        for I in phis:
            if I.res in int_phi_vals:
                scratch.env[(fr, I.res)] = int_phi_vals[I.res]
        for I in fn.blocks[latch]:
            if I.op in ("br", "phi"):
                continue
            try:
                M.exec(fn, fr, scratch, I, latch)
            except Inconclusive:
                pass
        nxt = {}
        for I in phis:
            if I.res in int_phi_vals:
                m = re.findall(r"\[ (.+?), %([\w.$-]+) \]", I.text)
                tok = next(v for v, l in m if l == latch)
                v = M.val(scratch, fr, "i32", tok)
                if not isinstance(v, int):
                    raise Inconclusive("loop counter is not an affine induction variable")
                nxt[I.res] = v
        int_phi_vals = nxt


def R_int(v):
    if is_sym(v):
        return v
    return z3.IntVal(int(v))


def Iz_(v):
    return v if is_sym(v) else z3.IntVal(int(v))


# --------------------------------------------------------------------------- monolithic Solve
def run_solve(project, tdir, neq, fields, fault_levels, stub_handle=False, indexed=True, script=None):
    ll, err = project.compile_ir(tdir, "naunet.cpp")
    if ll is None:
        raise Inconclusive(f"naunet.cpp does not lower: {err[-300:]}")
    # level 0 = the CVode call in Solve itself, level l = l-th re-initialisation
    integ = Integ(neq, fault_ok=lambda lvl: lvl <= fault_levels, indexed=indexed, script=script)
    st_ = H.base_stubs()
    st_.update(integ.stubs())
    M = Machine([ll], st_)
    M.deadline = time.time() + 120  # the real Solve + HandleError takes a few seconds; give up on shapes that fork per sub-step
    dem = H.demangle(sorted(M.funcs))
    sname = next(n for n, d in dem.items() if d.startswith("Naunet::Solve("))
    captured = {}
    if stub_handle:
        hname = next(n for n, d in dem.items() if d.startswith("Naunet::HandleError("))

        def handle(M_, st, a):
            captured["args"] = a
            captured["ab"] = [R(st.load("ab", 8 * i)) for i in range(neq)]
            captured["tcur"] = R(st.load("integ", 0))
            captured["pc"] = st.pathcond()
            offs, _, _ = M_.struct_layout("%class.Naunet")
            fo = {n: o for n, (o, _) in zip(fields, offs)}
            captured["ab_init"] = [st.load("this", fo["ab_init_"] + 8 * i) for i in range(neq)]
            # what the real HandleError may write: the caller's abundances and the checkpoint array (never ab_init_:
            # that frame condition is an obligation of the runs with the real HandleError inlined)
            for i in range(neq):
                st.store("ab", 8 * i, z3.Real(f"handle_ab_{i}"))
                st.store("this", fo["ab_tmp_"] + 8 * i, z3.Real(f"handle_tmp_{i}"))
            h = M_.fresh_int("handle_ret")
            captured["h"] = h
            integ.assumes.append(z3.Or(h == 0, h == 1))
            return st, h

        M.stubs[hname] = handle
    y0 = [z3.Real(f"y0_{i}") for i in range(neq)]
    dt = z3.Real("dt")
    st = State()
    fo = setup_this(M, st, fields, neq, [z3.Real(f"stale_init_{i}") for i in range(neq)])
    st.size["ab"] = 8 * neq
    st.mem["ab"] = {8 * i: y0[i] for i in range(neq)}
    st.size["integ_y"] = 8 * neq
    st.mem["integ_y"] = {8 * i_: z3.Real(f"integ_internal_{i_}") for i_ in range(neq)}
    st.size["integ"] = 32
    st.mem["integ"] = {0: z3.RealVal(0), 8: Ptr("ab", 0), 16: 0, 24: 0}
    ud, _ = make_udata_plain(M, project, tdir, st)
    _, ret = M.run_function(sname, st, [Ptr("this", 0), Ptr("ab", 0), dt, ud])
    return M, st, ret, integ, y0, dt, captured


def make_udata_plain(M, project, tdir, st):
    names = [f for f, _ in project.data_fields(tdir)]
    st.size["udata"] = max(8 * len(names), 8)
    st.mem["udata"] = {8 * i: z3.Real(n) for i, n in enumerate(names)}
    return Ptr("udata", 0), names


def check_solve(chk, project, tdir, neq, fields):
    tag = f"{tdir}:Solve"
    chk.functions.add(f"{tdir}:Naunet::Solve")
    chk.functions.add(f"{tdir}:Naunet::CheckFlag")
    # (base) Solve up to the HandleError call establishes the invariant; flag propagation; logging
    M, st, ret, integ, y0, dt, cap = run_solve(project, tdir, neq, fields, 0, stub_handle=True)
    s = z3.Solver()
    s.set("timeout", 120_000)
    s.add(integ.assumes)
    s.add(integ.axioms())
    s.add(dt > 0)
    setup_ok = z3.And([g >= 0 for _, g in integ.setup_flags] or [z3.BoolVal(True)])
    retz = R_int(ret)

    def ask(name, bad, expect="unsat", what=None, kind="ladder"):
        t1 = time.time()
        r = str(s.check(bad))
        chk.solver_s += time.time() - t1
        chk.xc.sample(s, [bad], r, name)
        if expect == "unsat":
            if r == "unsat":
                chk.ok(name)
            elif r == "sat":
                m = s.model()
                trace = {str(dd): str(m[dd]) for dd in m.decls() if str(dd).startswith(("flag", "tret", "setup", "handle", "dt", "reinit"))}
                if kind == "log":
                    confirm_log_violation(chk, project, tdir, name, trace)
                else:
                    confirm_ladder_violation(chk, project, tdir, name, trace, 0, what)
            else:
                chk.unknown(name, "solver " + r)
        elif r == "sat":
            chk.ok(name)
        else:
            chk.harness_error(f"reachability twin {name}: {r}")

    if not cap:
        chk.violation(f"{tag}:no-HandleError", "Solve never consults HandleError after CVode", {"target": tdir})
        return
    cflag, abp, d_arg, t0_arg = cap["args"][1], cap["args"][2], R(cap["args"][3]), R(cap["args"][4])
    c = Iz_(cflag)
    inv = z3.And(d_arg == dt, *[R(cap["ab_init"][i]) == y0[i] for i in range(neq)],
                 z3.Implies(c < 0, z3.And(*[cap["ab"][i] == y0[i] + t0_arg for i in range(neq)], t0_arg >= 0, t0_arg < d_arg, cap["tcur"] == t0_arg)),
                 z3.Implies(c >= 0, z3.And(*[cap["ab"][i] == y0[i] + dt for i in range(neq)])))
    ask(f"{tag}:base-invariant-at-HandleError", z3.And(cap["pc"], z3.Not(inv)))
    ask(f"{tag}:flag-propagated", z3.And(setup_ok, retz != cap["h"]))
    ask(f"{tag}:setup-failure=>FAIL", z3.And(z3.Not(setup_ok), retz != FAIL))
    # FAIL => initial state logged
    def logged_obligations(st_, cond_fail, label):
        logged = {}
        for g, ev in st_.log:
            if ev[0] == "print" and ev[1] and re.search(r"\by\[%d\] = ", ev[1]):
                i, v = ev[2][0], ev[2][1]
                logged.setdefault(i if not is_sym(i) else str(i), []).append((g, R(v)))
        for i in range(neq):
            ok_i = z3.Or([z3.And(g, v == y0[i]) for g, v in logged.get(i, [])] or [z3.BoolVal(False)])
            ask(f"{label}:FAIL=>initial-state-logged[{i}]", z3.And(cond_fail, z3.Not(ok_i)), kind="log")

    logged_obligations(st, z3.And(setup_ok, cap["h"] == FAIL), tag)
    ask(f"{tag}:reach-FAIL", z3.And(setup_ok, retz == FAIL), expect="sat")
    ask(f"{tag}:reach-SUCCESS", z3.And(setup_ok, retz == SUCCESS), expect="sat")
    chk.extra["states"] = chk.extra.get("states", 0) + M.merges + 1
    chk.extra["transitions"] = chk.extra.get("transitions", 0) + len(integ.flags) * 3 + len(integ.setup_flags) * 2
    # (M) monolithic, real HandleError inlined.  The fully symbolic five-level query does
    # not finish (DESIGN.md 6/C19); what is decided end-to-end here:
    #  (M0) arbitrary outcome of Solve's own CVode call and of every re-initialisation,
    #       symbolic flags, later sub-steps succeed;
    #  (M1, thorough) additionally arbitrary outcomes of all 10 sub-steps of level 1;
    #  (Ms) K concrete flag scripts through all five levels with *symbolic* partial times.
    for levels in ([0] if chk.tier == "quick" else [0, 1]):
        try:
            M, st, ret, integ, y0, dt, _ = run_solve(project, tdir, neq, fields, levels, indexed=False)
        except Inconclusive as e:
            chk.unknown(f"{tag}:monolithic(levels<={levels})", f"encoder: {e}")
            continue
        chk.functions.add(f"{tdir}:Naunet::HandleError")
        s = z3.Solver()
        s.set("timeout", 240_000)
        s.add(integ.assumes)
        s.add(integ.axioms())
        s.add(dt > 0)
        s.add([g >= 0 for _, g in integ.setup_flags])
        retz = R_int(ret)
        abf = [R(st.load("ab", 8 * i)) for i in range(neq)]
        ask(f"{tag}:monolithic(symbolic faults in levels<={levels}):SUCCESS=>exact-interval", z3.And(retz == SUCCESS, z3.Or([abf[i] != y0[i] + dt for i in range(neq)])))
        ask(f"{tag}:monolithic(levels<={levels}):return-in-{{0,1}}", z3.Not(z3.Or(retz == 0, retz == 1)))
        offs_, _, _ = M.struct_layout("%class.Naunet")
        fo_ = {n: o for n, (o, _) in zip(fields, offs_)}
        ask(f"{tag}:monolithic(levels<={levels}):HandleError-keeps-ab_init_", z3.Or([R(st.load("this", fo_["ab_init_"] + 8 * i)) != y0[i] for i in range(neq)]), kind="log")
        logged_obligations(st, retz == FAIL, f"{tag}:monolithic(levels<={levels})")
        ask(f"{tag}:monolithic(levels<={levels}):reach-SUCCESS-after-failure", z3.And(retz == SUCCESS, integ.flags[0][0] < 0), expect="sat")
        chk.extra["states"] += M.merges + 1
        chk.extra["transitions"] += len(integ.flags) * 3
        chk.sample({"monolithic_levels": levels, "cvode_call_sites": len(integ.flags), "merged_branches": M.merges, "instructions": M.steps})
    import random

    rnd = random.Random(chk.seed + 99)
    nscripts = 24 if chk.tier == "quick" else 200
    scripts = []
    for k in range(nscripts):
        script = {(0, 0): rnd.choice([-1, -2, -3, -4, -6, -1, -4, 0, -7])}
        depth = rnd.randint(0, 5)
        for l in range(1, depth + 1):
            script[(l, rnd.randint(0, 10 * l - 1))] = rnd.choice([-1, -2, -3, -4, -6, -6, -5, -9])
        if rnd.random() < 0.1:
            script[("reinit", rnd.randint(1, 5))] = -1
        scripts.append(script)
    # deterministic positions: a failure at the first / a middle / the last-but-one / the last sub-step of a level after
    # recoverable failures at the first sub-step of every earlier level (quick: levels 1, 3, 5; thorough: all)
    for L in ((1, 3, 5) if chk.tier == "quick" else (1, 2, 3, 4, 5)):
        n = 10 * L
        for pos in sorted({0, n // 2, n - 2, n - 1}):
            for fl in ((-1, -7) if chk.tier == "quick" else (-1, -4, -6, -7)):
                script = {(0, 0): -2}
                for l in range(1, L):
                    script[(l, 0)] = -3
                script[(L, pos)] = fl
                scripts.append(script)
    for k, script in enumerate(scripts):
        try:
            M, st, ret, integ, y0, dt, _ = run_solve(project, tdir, neq, fields, 5, script=script)
        except Inconclusive as e:
            chk.unknown(f"{tag}:script{k}", f"encoder: {e}")
            continue
        s = z3.Solver()
        s.set("timeout", 60_000)
        s.add(integ.assumes)
        s.add(integ.axioms())
        s.add(dt > 0)
        s.add([g >= 0 for _, g in integ.setup_flags])
        retz = R_int(ret)
        abf = [R(st.load("ab", 8 * i)) for i in range(neq)]
        ask(f"{tag}:script{k}:SUCCESS=>exact-interval", z3.And(retz == SUCCESS, z3.Or([abf[i] != y0[i] + dt for i in range(neq)])), what=None)
        logged_obligations(st, retz == FAIL, f"{tag}:script{k}")
        # the return value against the documented ladder (an unrecoverable or unrepaired failure is never SUCCESS)
        seq, reinit = script_to_sequence(script)
        want, _ = ladder_reference(seq, reinit)
        r_ = str(s.check(retz != want))
        chk.xc.sample(s, [retz != want], r_, f"{tag}:script{k}:return")
        if r_ == "unsat":
            chk.ok(f"{tag}:script{k}:return=documented-ladder")
        elif r_ == "sat":
            confirm_return_violation(chk, project, tdir, f"{tag}:script:return", seq, reinit, want, {str(a): b for a, b in script.items()})
        else:
            chk.unknown(f"{tag}:script{k}:return", "solver " + r_)
        chk.extra["states"] += 1
        chk.extra["transitions"] += len(integ.flags)
        if k < 2:
            chk.sample({"flag_script": {str(a): b for a, b in script.items()}, "cvode_calls_on_path": len(integ.flags), "result": str(ret)})


# --------------------------------------------------------------------------- odeint
def check_odeint(chk, project, tdir, neq):
    chk.functions.update({f"{tdir}:Observer::operator()", f"{tdir}:Naunet::Solve"})
    ll_ode, err = project.compile_ir(tdir, "naunet_ode.cpp")
    ll, err2 = project.compile_ir(tdir, "naunet.cpp")
    if ll is None or ll_ode is None:
        chk.harness_error(f"odeint sources do not lower: {(err or err2)[-300:]}")
        return
    # Observer: throws <=> step budget exceeded
    st_ = H.base_stubs()
    thrown = []

    def cxa_throw(M_, st, a):
        return st, Throw(a[0], 1)

    st_["__cxa_throw"] = cxa_throw
    st_["__cxa_allocate_exception"] = lambda M_, st, a: (st, M_.new_obj(st, 64))
    st_["__cxa_free_exception"] = lambda M_, st, a: (st, None)
    M = Machine([ll_ode], st_)
    dem = H.demangle(sorted(M.funcs))
    L = type("L", (), {})()
    oname = next(n for n, d in dem.items() if d.startswith("Observer::operator()("))
    M.stubs["_ZNSt13runtime_errorC1EPKc"] = lambda M_, st, a: (st, None)
    st = State()
    offs, size, _ = M.struct_layout("%class.Observer")
    st.size["obs"] = size
    mx, step = z3.Int("mxsteps"), z3.Int("step")
    st.mem["obs"] = {offs[0][0]: mx, offs[1][0]: step, offs[2][0]: z3.Real("time")}
    st.size["x"] = 16
    _, ret = M.run_function(oname, st, [Ptr("obs", 0), Ptr("x", 0), z3.Real("t")])
    g_throw = z3.Or([g for g, v in RetSet.lift(ret) if isinstance(v, Throw)] or [z3.BoolVal(False)])
    s = z3.Solver()
    t1 = time.time()
    r = str(s.check(g_throw != (step + 1 > mx)))
    chk.solver_s += time.time() - t1
    if r == "unsat":
        chk.ok("observer")
        chk.sample({"obligation": "Observer::operator() throws <=> step_+1 > mxsteps_", "verdict": "unsat"})
    elif r == "sat":
        m = s.model()
        chk.violation(f"{tdir}:Observer", f"Observer does not throw exactly when the step budget is exceeded (step={m[step]}, mxsteps={m[mx]})", {"target": tdir, "model": {"step": str(m[step]), "mxsteps": str(m[mx])}, "replay_note": "branch condition read from the compiled IR"})
    else:
        chk.unknown("observer", r)
    step_after = st.load("obs", offs[1][0])
    r = str(s.check(z3.And(z3.Not(g_throw), Iz_(step_after) != step + 1)))
    chk.ok("observer-counts") if r == "unsat" else chk.unknown("observer-counts", r)
    obs_offs = offs
    # Solve: FAIL <=> integrate_adaptive threw std::runtime_error
    for scenario in ("returns", "throws", "two-calls"):
        st_ = H.base_stubs()
        # naunet_ode.cpp is loaded too so that the real Observer constructor runs
        M = Machine([ll, ll_ode], st_)
        seen = []
        fixed_seen = []
        dem = H.demangle(sorted(M.funcs))
        sname = next(n for n, d in dem.items() if d.startswith("Naunet::Solve("))
        data = {}

        def vec_ctor(M_, st, a):
            data[a[0].obj] = a[0].obj + ".data"
            n = a[1] if len(a) > 1 and isinstance(a[1], int) else neq
            st.size[a[0].obj + ".data"] = 8 * n
            return st, None

        def vec_idx(M_, st, a):
            o = data.get(a[0].obj)
            if o is None:
                raise Inconclusive("vector used before construction")
            if not (0 <= a[1] < st.objsize(o) // 8):
                M_.oob.append((st.pathcond(), f"vector index {a[1]}"))
            return st, Ptr(o, 8 * a[1])

        def integrate(M_, st, a):
            # y(t) = y0 + t on the vector handed in (3rd argument)
            vi = next(i for i, x in enumerate(a) if isinstance(x, Ptr) and x.obj in data)
            vec, tstart, tend = a[vi], a[vi + 1], a[vi + 2]
            ob = a[-1]
            if isinstance(ob, Ptr):
                seen.append((st.pathcond(), st.load(ob.obj, ob.off + obs_offs[0][0]), st.load(ob.obj, ob.off + obs_offs[1][0])))
            else:
                seen.append((st.pathcond(), None, None))
            if scenario == "throws":
                return st, Throw(Ptr("exc", 0), 1)
            o = data[vec.obj]
            for i in range(neq):
                st.store(o, 8 * i, R(st.load(o, 8 * i)) + R(tend) - R(tstart))
            return st, z3.Int("nsteps")

        def integrate_fixed(M_, st, a):
            # Boost's fixed-output-time drivers (integrate_const, integrate_n_steps, integrate_times) call the observer
            # at the output times only, not after every internal step: an observer that counts steps counts outputs
            fixed_seen.append(st.pathcond())
            return integrate(M_, st, a)

        pats = [
            (r"ublas::vector<double>::vector\(unsigned long\)", vec_ctor),
            (r"ublas::vector<double>::operator\[\]", vec_idx),
            (r"ublas::vector<double>::~vector", lambda M_, st, a: (st, None)),
            (r"integrate_adaptive<", integrate),
            (r"integrate_(const|n_steps|times)<", integrate_fixed),
            (r"make_controlled<|make_dense_output<", lambda M_, st, a: (st, None)),
            (r"^Observer::~Observer|^Fex::Fex|^Fex::~Fex|^Jac::Jac|^Jac::~Jac", lambda M_, st, a: (st, None)),
            (r"^std::terminate", lambda M_, st, a: (st, None)),
        ]
        M.stubs["llvm.eh.typeid.for"] = lambda M_, st, a: (st, 1)
        M.stubs["__cxa_begin_catch"] = lambda M_, st, a: (st, Ptr("exc", 0))
        M.stubs["__cxa_end_catch"] = lambda M_, st, a: (st, None)

        # function-local statics: initialised by whichever call comes first, never again
        def guard_acquire(M_, st, a):
            v = st.load(a[0].obj, a[0].off)
            return st, (1 if (v is None or (isinstance(v, int) and v == 0)) else 0)

        def guard_release(M_, st, a):
            st.store(a[0].obj, a[0].off, 1)
            return st, None

        M.stubs["__cxa_guard_acquire"] = guard_acquire
        M.stubs["__cxa_guard_release"] = guard_release
        M.stubs["__cxa_guard_abort"] = lambda M_, st, a: (st, None)
        M.stubs["__cxa_atexit"] = lambda M_, st, a: (st, 0)
        # of naunet_ode.cpp only the Observer constructor is wanted: the functors' special members stay stubs
        for n_, d_ in dem.items():
            if re.search(r"^Observer::~Observer|^Fex::Fex|^Fex::~Fex|^Jac::Jac|^Jac::~Jac|^Fex::operator|^Jac::operator", d_ or ""):
                M.stubs[n_] = lambda M_, st, a: (st, None)
        M.opaque_indirect = True
        M.trunc_identity = True  # step count size_t -> int: no wrap-around claimed
        extdem = {}
        orig = M.call

        def call(st, name, args, argtys=None, _orig=orig, _M=M):
            if name not in _M.stubs and name not in _M.funcs:
                d_ = extdem.get(name) or extdem.setdefault(name, H.demangle([name])[name])
                for rx, f in pats:
                    if re.search(rx, d_):
                        _M.stubs[name] = f
                        break
            return _orig(st, name, args, argtys)

        M.call = call
        st = State()
        offs, size, _ = M.struct_layout("%class.Naunet")
        st.size["this"] = size
        st.mem["this"] = {}
        st.size["exc"] = 64
        st.mem["exc"] = {}
        y0 = [z3.Real(f"y0_{i}") for i in range(neq)]
        dt = z3.Real("dt")
        st.size["ab"] = 8 * neq
        st.mem["ab"] = {8 * i: y0[i] for i in range(neq)}
        st.size["udata"] = 256
        fields = class_fields(project, tdir)
        fo = {n: o for n, (o, _) in zip(fields, offs)} if len(fields) == len(offs) else {}
        mx1, mx2 = z3.Int("mxsteps_first"), z3.Int("mxsteps_second")
        if "mxsteps_" in fo:
            st.mem["this"][fo["mxsteps_"]] = mx1
        try:
            _, ret = M.run_function(sname, st, [Ptr("this", 0), Ptr("ab", 0), dt, Ptr("udata", 0)])
            if scenario == "two-calls":
                # the same object is given another step budget (Reset) and Solve is called again in the same process state
                if "mxsteps_" not in fo:
                    raise Inconclusive("class Naunet has no member mxsteps_")
                # ... through the real Naunet::Reset where it can be executed (it is how every generated driver
                # configures the budget), otherwise by writing the member
                rname = next((n for n, d in dem.items() if (d or "").startswith("Naunet::Reset(")), None)
                done = False
                if rname is not None:
                    try:
                        M.run_function(rname, st, [Ptr("this", 0), 1, z3.Real("atol2"), z3.Real("rtol2"), mx2])
                        done = True
                        chk.functions.add(f"{tdir}:Naunet::Reset")
                    except Inconclusive:
                        done = False
                if not done:
                    st.store("this", fo["mxsteps_"], mx2)
                n1 = len(seen)
                _, ret2 = M.run_function(sname, st, [Ptr("this", 0), Ptr("ab", 0), dt, Ptr("udata", 0)])
        except Inconclusive as e:
            chk.unknown(f"{tdir}:Solve:{scenario}", e)
            continue
        if fixed_seen and scenario == "returns":
            chk.violation(f"{tdir}:Solve:observer-protocol", "odeint Solve drives the integration with a fixed-output-time driver (integrate_const / integrate_n_steps / integrate_times): Boost calls the observer at the output times only, so the step-budget observer never sees the internal steps and exceeding the budget is not reported",
                          {"target": tdir, "replay_note": "call read from the compiled Solve; observer protocol as documented for boost::numeric::odeint::integrate_const"})
        if scenario == "two-calls":
            s = z3.Solver()
            for which, lo, hi, mx in (("first", 0, n1, mx1), ("second", n1, len(seen), mx2)):
                name = f"{tdir}:Solve:{which}-call:observer-carries-current-step-budget"
                if hi - lo < 1 or any(m_ is None for _, m_, _ in seen[lo:hi]):
                    chk.unknown(name, "no observer object seen at integrate_adaptive")
                    continue
                bad = z3.Or([z3.And(pc, z3.Or(Iz_(m_) != mx, Iz_(st_) != 0)) for pc, m_, st_ in seen[lo:hi]])
                r = str(s.check(bad))
                if r == "unsat":
                    chk.ok(name)
                elif r == "sat":
                    mdl = s.model()
                    chk.violation(f"{tdir}:Solve:observer-budget:{which}-call", f"the step-budget observer handed to the integrator in the {which} Solve call of a process does not carry the object's current mxsteps_ with a zero step count (mxsteps_ = {mdl.eval(mx, model_completion=True)}, observer has {z3.simplify(Iz_(seen[lo][1]))}): exceeding the current budget is not reported as failure",
                                  {"target": tdir, "call": which, "model": {str(d): str(mdl[d]) for d in mdl.decls()}, "replay_note": "values read from the compiled Solve: function-local static state survives between calls"})
                else:
                    chk.unknown(name, r)
            continue
        want = FAIL if scenario == "throws" else SUCCESS
        s = z3.Solver()
        r = str(s.check(R_int(ret) != want))
        name = f"{tdir}:Solve:integrate_adaptive-{scenario}=>{'FAIL' if want else 'SUCCESS'}"
        if r == "unsat":
            chk.ok(name)
        elif r == "sat":
            chk.violation(name, f"odeint Solve returns {ret} when integrate_adaptive {scenario}", {"target": tdir, "scenario": scenario, "replay_note": "return value is concrete in the compiled IR for this scenario"})
        else:
            chk.unknown(name, r)
        if scenario == "returns":
            abf = [R(st.load("ab", 8 * i)) for i in range(neq)]
            r = str(s.check(z3.Or([abf[i] != y0[i] + dt for i in range(neq)])))
            chk.ok(name + ":interval") if r == "unsat" else (chk.violation(name + ":interval", "odeint Solve does not copy back the state advanced over exactly [0, dt]", {"target": tdir}) if r == "sat" else chk.unknown(name, r))
        chk.extra["states"] = chk.extra.get("states", 0) + M.merges + 1
        chk.extra["transitions"] = chk.extra.get("transitions", 0) + 2


# --------------------------------------------------------------------------- Python wrapper
def check_pywrap(chk, project, tdir):
    """PyWrapSolve (the `Solve` a Python user calls) must raise exactly when Solve returns FAIL"""
    ll, err = project.compile_ir(tdir, "naunet.cpp", extra_flags=("-DPYMODULE", "-DPYMODNAME=pynaunet"), tag="py")
    if ll is None:
        chk.unknown(f"{tdir}:PyWrapSolve", "naunet.cpp does not lower with -DPYMODULE: " + err[-200:])
        return
    chk.functions.add(f"{tdir}:Naunet::PyWrapSolve")
    for want in (SUCCESS, FAIL):
        st_ = H.base_stubs()
        st_["__cxa_throw"] = lambda M_, st, a: (st, Throw(a[0], 1))
        st_["__cxa_allocate_exception"] = lambda M_, st, a: (st, M_.new_obj(st, 64))
        st_["__cxa_free_exception"] = lambda M_, st, a: (st, None)
        st_["_ZNSt13runtime_errorC1EPKc"] = lambda M_, st, a: (st, None)
        M = Machine([ll], st_)
        dem = H.demangle(sorted(M.funcs))
        wname = next(n for n, d in dem.items() if d.startswith("Naunet::PyWrapSolve("))
        sname = next(n for n, d in dem.items() if d.startswith("Naunet::Solve("))
        called = []

        def solve(M_, st, a, want=want):
            called.append(a)
            return st, want

        M.stubs[sname] = solve
        extdem = {}
        orig = M.call

        def call(st, name, args, argtys=None, _orig=orig, _M=M):
            if name not in _M.stubs and name not in _M.funcs:
                d_ = extdem.get(name) or extdem.setdefault(name, H.demangle([name])[name])
                if d_.startswith("pybind11::"):
                    if "::request()" in d_:
                        # sret buffer_info: ptr field = the array's data
                        def req(M__, st_, a_):
                            st_.store(a_[0].obj, a_[0].off, Ptr("ab", 0))
                            return st_, None

                        _M.stubs[name] = req
                    else:
                        _M.stubs[name] = lambda M__, st_, a_: (st_, None)
            return _orig(st, name, args, argtys)

        M.call = call
        st = State()
        for o, sz in (("ret", 64), ("this", 256), ("arr", 64), ("ab", 64), ("udata", 256)):
            st.size[o] = sz
        try:
            _, ret = M.run_function(wname, st, [Ptr("ret", 0), Ptr("this", 0), Ptr("arr", 0), z3.Real("dt"), Ptr("udata", 0)])
        except Inconclusive as e:
            chk.unknown(f"{tdir}:PyWrapSolve", e)
            return
        threw = isinstance(ret, Throw)
        name = f"{tdir}:PyWrapSolve:Solve-returns-{'FAIL' if want else 'SUCCESS'}"
        if not called:
            chk.violation(name + ":no-call", "PyWrapSolve never calls Solve", {"target": tdir})
        elif threw == (want == FAIL):
            chk.ok(name)
            chk.nontrivial.add(name)
        else:
            chk.violation(f"{tdir}:PyWrapSolve:{'swallows-failure' if want else 'raises-on-success'}",
                          f"the Python-level Solve of the {tdir} back-end {'returns normally although Solve reported FAIL: the failure is never seen by the caller' if want else 'raises although Solve succeeded'}",
                          {"target": tdir, "solve_returns": want, "raised": threw, "replay_note": "control flow is concrete in the compiled IR of PyWrapSolve for a given return value of Solve"})
        chk.extra["states"] = chk.extra.get("states", 0) + 1
        chk.extra["transitions"] = chk.extra.get("transitions", 0) + 1


# --------------------------------------------------------------------------- native replay with a scripted integrator
MOCK = r"""
#include <stdio.h>
#include <stdlib.h>
#include <math.h>
#include <sundials/sundials_types.h>
struct _generic_N_Vector { double *data; long n; };
static double T_CUR = 0; static double *Y = 0; static long NEQ_ = 0;
static int NSCRIPT = 0, POS = 0; static int FLAGS[4096]; static double FRACS[4096];
static int NRE = 0, REPOS = 0; static int REFLAGS[64];
extern "C" {
int SUNContext_Create(void*, SUNContext*) { return 0; } int SUNContext_Free(SUNContext*) { return 0; }
N_Vector N_VNewEmpty_Serial(sunindextype n, SUNContext) { N_Vector v = new _generic_N_Vector(); v->n = n; NEQ_ = n; return v; }
N_Vector N_VNew_Serial(sunindextype n, SUNContext c) { N_Vector v = N_VNewEmpty_Serial(n, c); v->data = new double[n](); return v; }
N_Vector N_VMake_Serial(sunindextype n, realtype *d, SUNContext c) { N_Vector v = N_VNewEmpty_Serial(n, c); v->data = d; return v; }
void N_VDestroy(N_Vector) {} void N_VConst(realtype, N_Vector) {}
realtype *N_VGetArrayPointer(N_Vector v) { return v->data; }
void N_VSetArrayPointer(realtype *d, N_Vector v) { v->data = d; Y = d; }
SUNMatrix SUNDenseMatrix(sunindextype, sunindextype, SUNContext) { return 0; }
SUNMatrix SUNSparseMatrix(sunindextype, sunindextype, sunindextype, int, SUNContext) { return 0; }
void SUNMatDestroy(SUNMatrix) {} int SUNMatZero(SUNMatrix) { return 0; }
SUNLinearSolver SUNLinSol_Dense(N_Vector, SUNMatrix, SUNContext) { return 0; }
SUNLinearSolver SUNLinSol_KLU(N_Vector, SUNMatrix, SUNContext) { return 0; }
int SUNLinSolFree(SUNLinearSolver) { return 0; } int SUNLinSolSetup(SUNLinearSolver, SUNMatrix) { return 0; }
int SUNLinSolSolve(SUNLinearSolver, SUNMatrix, N_Vector, N_Vector, realtype) { return 0; }
void *CVodeCreate(int, SUNContext) { static int x; return &x; } void CVodeFree(void **) {}
int CVodeSetErrFile(void *, FILE *) { return 0; } int CVodeSetMaxNumSteps(void *, long) { return 0; }
static double YI[256];  // the integrator's own copy of the state, taken when CVodeInit / CVodeReInit are called
int CVodeInit(void *, CVRhsFn, realtype t0, N_Vector) { T_CUR = t0; for (long i = 0; i < NEQ_; i++) YI[i] = Y[i]; return 0; }
int CVodeSStolerances(void *, realtype, realtype) { return 0; }
int CVodeSetLinearSolver(void *, SUNLinearSolver, SUNMatrix) { return 0; } int CVodeSetJacFn(void *, CVLsJacFn) { return 0; }
int CVodeSetUserData(void *, void *) { return 0; }
int CVodeReInit(void *, realtype t0, N_Vector) { T_CUR = t0; for (long i = 0; i < NEQ_; i++) YI[i] = Y[i]; return REPOS < NRE ? REFLAGS[REPOS++] : 0; }
// scripted: call j returns FLAGS[j]; on failure it stops at t_cur + FRACS[j]*(tout-t_cur); y(t) = y0 + t
int CVode(void *, realtype tout, N_Vector, realtype *tret, int) {
    int f = POS < NSCRIPT ? FLAGS[POS] : 0; double fr = POS < NSCRIPT ? FRACS[POS] : 1.0; POS++;
    double t = f >= 0 ? tout : T_CUR + fr * (tout - T_CUR);
    for (long i = 0; i < NEQ_; i++) { YI[i] += t - T_CUR; Y[i] = YI[i]; }
    T_CUR = t; *tret = t; return f;
}
int CVodeGetNumSteps(void*, long*){return 0;} int CVodeGetNumRhsEvals(void*, long*){return 0;} int CVodeGetNumLinSolvSetups(void*, long*){return 0;}
int CVodeGetNumErrTestFails(void*, long*){return 0;} int CVodeGetNumNonlinSolvIters(void*, long*){return 0;} int CVodeGetNumNonlinSolvConvFails(void*, long*){return 0;}
int CVodeGetNumJacEvals(void*, long*){return 0;} int CVodeGetNumGEvals(void*, long*){return 0;}
}
#include "naunet.h"
int Fex(realtype, N_Vector, N_Vector, void *) { return 0; }
int Jac(realtype, N_Vector, N_Vector, SUNMatrix, void *, N_Vector, N_Vector, N_Vector) { return 0; }
int InitRenorm(realtype *, SUNMatrix) { return 0; } int RenormAbundance(realtype *, realtype *) { return 0; }
double GetElementAbund(double *, int) { return 0; } double GetHNuclei(double *) { return 1; }
int main(int argc, char **argv) {
    double dt = atof(argv[1]); NSCRIPT = atoi(argv[2]);
    for (int i = 0; i < NSCRIPT; i++) { FLAGS[i] = atoi(argv[3 + 2 * i]); FRACS[i] = atof(argv[4 + 2 * i]); }
    int base = 3 + 2 * NSCRIPT; NRE = argc > base ? atoi(argv[base]) : 0;
    for (int i = 0; i < NRE; i++) REFLAGS[i] = atoi(argv[base + 1 + i]);
    Naunet n; n.Init(1, 1e-20, 1e-5, 500);
    double y[NEQUATIONS]; for (int i = 0; i < NEQUATIONS; i++) y[i] = 1.0 + i;
    NaunetData d;
    int flag = n.Solve(y, dt, &d);
    printf("ret %d\n", flag);
    for (int i = 0; i < NEQUATIONS; i++) printf("y %d %.17g\n", i, y[i] - (1.0 + i));
    printf("calls %d\n", POS);
    return 0;
}
"""


def ladder_reference(flags, reinit=()):
    """The recovery ladder as documented (independent of the generated code): `flags` are the integrator's
    return values in call order (missing = success), `reinit` those of CVodeReInit.  -> (SUCCESS|FAIL, calls made)"""
    it = iter(flags)
    nxt = lambda: next(it, 0)
    rit = iter(reinit)
    calls = 1
    f = nxt()
    if f >= 0:
        return SUCCESS, calls
    for level in range(1, 6):
        if not (-4 <= f <= -1 or f == -6):
            return FAIL, calls
        if next(rit, 0) < 0:
            return FAIL, calls
        for step in range(10 * level):
            f = nxt()
            calls += 1
            if f < 0:
                break
        if f >= 0:
            return SUCCESS, calls
    return FAIL, calls


def script_to_sequence(script):
    """{(level, step): flag, ('reinit', level): flag} -> positional flags in the call order of the documented ladder"""
    seq = [script.get((0, 0), 0)]
    f = seq[0]
    reinit = [script.get(("reinit", l), 0) for l in range(1, 6)]
    if f >= 0:
        return seq, reinit
    for level in range(1, 6):
        if not (-4 <= f <= -1 or f == -6) or reinit[level - 1] < 0:
            break
        for step in range(10 * level):
            f = script.get((level, step), 0)
            seq.append(f)
            if f < 0:
                break
        if f >= 0:
            break
    return seq, reinit


def native_ladder(project, tdir, dt, script, reinit=()):
    """run the real compiled naunet.cpp against the scripted mock integrator"""
    t = project.tdir(tdir)
    b = os.path.join(t, "native_c19")
    os.makedirs(b, exist_ok=True)
    exe = os.path.join(b, "ladder")
    if not os.path.exists(exe):
        with open(os.path.join(b, "mock.cpp"), "w") as fh:
            fh.write(MOCK)
        cmd = ["g++", "-std=c++14", "-O0", "-w", "-I", proj.SHIM, "-I", os.path.join(t, "include"), os.path.join(b, "mock.cpp"), os.path.join(t, "src", "naunet.cpp"), "-o", exe, "-lm"]
        r = subprocess.run(cmd, capture_output=True, text=True)
        if r.returncode != 0:
            raise Inconclusive("mock integrator build failed: " + r.stderr[-800:])
    args = [exe, repr(float(dt)), str(len(script))]
    for f, fr in script:
        args += [str(int(f)), repr(float(fr))]
    args += [str(len(reinit))] + [str(int(x)) for x in reinit]
    rec = os.path.join(b, "naunet_error_record.txt")
    if os.path.exists(rec):
        os.unlink(rec)
    r = subprocess.run(args, capture_output=True, text=True, cwd=b, timeout=60)
    out = {"y": {}}
    if os.path.exists(rec):
        txt = open(rec, errors="replace").read()
        if "Initial condition" in txt:
            blk = txt[txt.rindex("Initial condition"):]
            out["logged"] = {int(i): float(v) for i, v in re.findall(r"^\s*y\[(\d+)\] = (\S+?);", blk, re.M)}
    for l in r.stdout.splitlines():
        p_ = l.split()
        if p_[0] == "ret":
            out["ret"] = int(p_[1])
        elif p_[0] == "y":
            out["y"][int(p_[1])] = float(p_[2])
        elif p_[0] == "calls":
            out["calls"] = int(p_[1])
    return out


def confirm_ladder_violation(chk, project, tdir, name, trace, level, what=None):
    """A sat answer of an inductive/monolithic query: search the scripted native
    mock for a concrete fault sequence that makes the real Solve misbehave."""
    import itertools
    import random

    rnd = random.Random(chk.seed + 17)
    tried = 0
    try:
        for attempt in range(400):
            nfail_levels = rnd.randint(0, 5)
            script = []
            f0 = rnd.choice([-1, -2, -3, -4, -6, -1, -4])
            script.append((f0, rnd.choice([0.0, 0.25, 0.5, 0.9])))
            for l in range(1, nfail_levels + 1):
                s_ = rnd.randint(1, 10 * l)
                script += [(0, 1.0)] * (s_ - 1) + [(rnd.choice([-1, -2, -3, -4, -6]), rnd.choice([0.0, 0.3, 0.7]))]
            dt = rnd.choice([1.0, 10.0, 3.15e7, 0.5])
            # every other attempt lets one re-initialisation fail
            reinit = []
            if attempt % 2:
                reinit = [0] * rnd.randint(0, 4) + [rnd.choice([-21, -22, -1])]
            out = native_ladder(project, tdir, dt, script, reinit=reinit)
            tried += 1
            chk.replays_done += 1
            want, _ = ladder_reference([f for f, _ in script], reinit)
            if out.get("ret") in (SUCCESS, FAIL) and out.get("ret") != want:
                chk.violation(name, what or f"Solve returns {'SUCCESS' if out.get('ret') == SUCCESS else 'FAIL'} where the documented recovery ladder gives {'SUCCESS' if want == SUCCESS else 'FAIL'}: integrator flags in call order {[f for f, _ in script][:12]}, re-initialisation flags {reinit}",
                              {"target": tdir, "dt": dt, "script": script, "reinit_flags": reinit, "native": out, "documented": want, "solver_trace": trace})
                return
            if out.get("ret") == SUCCESS and any(abs(v - dt) > 1e-6 * dt for v in out["y"].values()):
                chk.violation(name, what or f"Solve returned SUCCESS but advanced component {max(out['y'], key=lambda i_: abs(out['y'][i_] - dt))} of the state by {max(out['y'].values(), key=lambda v_: abs(v_ - dt))!r} instead of dt={dt}: fault script {script[:8]}...",
                              {"target": tdir, "dt": dt, "script": script, "native": out, "solver_trace": trace})
                return
            if out.get("ret") not in (SUCCESS, FAIL):
                chk.violation(name, f"Solve returned {out.get('ret')}", {"target": tdir, "script": script, "native": out})
                return
    except Inconclusive as e:
        chk.unknown(name, f"sat ({trace}) but native mock unavailable: {e}")
        return
    chk.unknown(name, f"solver found a candidate ({str(trace)[:200]}) but {tried} scripted native runs of the real Solve behave correctly: invariant too weak or encoding artefact")
    chk.harness_error(f"non-reproducing counterexample for {name}")


LOG_SCRIPTS = [
    ([(-1, 0.3), (-7, 0.5)], []),
    ([(-2, 0.5), (-3, 0.25), (-9, 0.5)], []),
    ([(-4, 0.25)], [-22]),
    ([(-1, 0.5)] + [(-2, 0.5)] * 5, []),
    ([(-3, 0.5)] + [(0, 1.0)] * 4 + [(-1, 0.5), (-5, 0.1)], []),
    ([(-7, 0.5)], []),
    ([(-6, 0.5), (-8, 0.5)], []),
]


def confirm_log_violation(chk, project, tdir, name, trace):
    """the solver says a failing Solve may log something else than the state it was entered with: run scripted
    failures on the real compiled naunet.cpp and read naunet_error_record.txt back"""
    tried = 0
    try:
        for script, reinit in LOG_SCRIPTS:
            for dt in (1.0, 3.15e7):
                out = native_ladder(project, tdir, dt, script, reinit=reinit)
                tried += 1
                chk.replays_done += 1
                if out.get("ret") != FAIL:
                    continue
                lg = out.get("logged")
                neq = len(out["y"])
                if not lg or len(lg) < neq:
                    chk.violation(name, f"Solve returned failure without logging the initial state (integrator flags {[f for f, _ in script]}, re-initialisation flags {reinit})", {"target": tdir, "dt": dt, "script": script, "reinit_flags": reinit, "native": out, "solver_trace": trace})
                    return
                bad = {i: v for i, v in lg.items() if abs(v - (1.0 + i)) > 1e-5 * (1.0 + i)}
                if bad:
                    i = min(bad)
                    chk.violation(name, f"Solve returned failure and logged y[{i}] = {bad[i]!r} as the initial condition; it was entered with y[{i}] = {1.0 + i} (integrator flags {[f for f, _ in script]} with partial progress {[fr for _, fr in script]}, dt = {dt})",
                                  {"target": tdir, "dt": dt, "script": script, "reinit_flags": reinit, "native": out, "entered_with": {k: 1.0 + k for k in lg}, "solver_trace": trace})
                    return
    except Inconclusive as e:
        chk.unknown(name, f"sat ({trace}) but native mock unavailable: {e}")
        return
    chk.unknown(name, f"solver found a candidate ({str(trace)[:200]}) but {tried} scripted native failures of the real Solve log the entry state")
    chk.harness_error(f"non-reproducing counterexample for {name}")


def confirm_return_violation(chk, project, tdir, name, seq, reinit, want, script):
    """replay a flag sequence on the real compiled naunet.cpp (scripted mock integrator)"""
    try:
        out = native_ladder(project, tdir, 1.0, [(f, 0.5 if f < 0 else 1.0) for f in seq], reinit=[r for r in reinit])
        chk.replays_done += 1
    except Inconclusive as e:
        chk.unknown(name, f"return value differs from the documented ladder for {script} but the native mock is unavailable: {e}")
        return
    if out.get("ret") != want:
        chk.violation(name, f"Solve returns {'SUCCESS' if out.get('ret') == SUCCESS else out.get('ret')} where the documented recovery ladder gives {'FAIL' if want == FAIL else 'SUCCESS'}: integrator flags in call order {seq[:12]}{'...' if len(seq) > 12 else ''} (a failure in a sub-step that no later level repairs is reported as success)",
                      {"target": tdir, "flags_in_call_order": seq, "reinit_flags": list(reinit), "native": out, "documented": want, "script": script})
    else:
        chk.unknown(name, f"solver says the return value differs from the documented ladder for {script}, the native build agrees with the ladder")
        chk.harness_error(f"non-reproducing counterexample for {name}")


def ladder_positions():
    """deterministic fault scripts: a failure at the first / a middle / the last-but-one / the last sub-step of every
    level (earlier levels each fail at their first sub-step with a recoverable flag), recoverable / reset / unrecoverable"""
    out = []
    for L in range(1, 6):
        n = 10 * L
        for pos in sorted({0, n // 2, n - 2, n - 1}):
            for fl in (-1, -4, -6, -7):
                seq = [-2]
                for l in range(1, L):
                    seq += [-3]
                seq += [0] * pos + [fl]
                out.append(seq)
    return out


def validate_traces(chk, project, tdir, n):
    """traces validated against the implementation: scripted native runs must agree
    with the model's prediction (SUCCESS => exactly dt)."""
    import random

    rnd = random.Random(chk.seed + 5)
    good = 0
    scripts = []
    for k in range(n):
        script = [(rnd.choice([-1, -2, -3, -4, -6, 0]), rnd.choice([0.0, 0.5, 0.99]))]
        for l in range(1, rnd.randint(0, 5) + 1):
            s_ = rnd.randint(1, 10 * l)
            script += [(0, 1.0)] * (s_ - 1) + [(rnd.choice([-1, -2, -3, -4, -6, -7]), rnd.choice([0.0, 0.3, 0.7]))]
        scripts.append(script)
    # every level x {first, middle, last-but-one, last sub-step} x {recoverable, reset, unrecoverable}
    scripts += [[(f, 0.5 if f < 0 else 1.0) for f in seq] for seq in ladder_positions()]
    for k, script in enumerate(scripts):
        dt = rnd.choice([1.0, 1e3, 3.15e7])
        try:
            out = native_ladder(project, tdir, dt, script)
        except Inconclusive as e:
            chk.notes.append(f"native mock unavailable: {e}")
            return
        chk.replays_done += 1
        want, _ = ladder_reference([f for f, _ in script])
        if out.get("ret") != want:
            chk.violation(f"{tdir}:native-trace:return", f"real Solve under the scripted integrator returns {out.get('ret')} where the documented recovery ladder gives {want} (0 = SUCCESS, 1 = FAIL): flags in call order {[f for f, _ in script][:14]}",
                          {"target": tdir, "dt": dt, "script": script, "native": out, "documented": want})
            continue
        if out.get("ret") == SUCCESS:
            if any(abs(v - dt) > 1e-9 * dt for v in out["y"].values()):
                chk.violation(f"{tdir}:native-trace:{k}", f"real Solve under the scripted integrator returned SUCCESS with progress {out['y']} != dt={dt}", {"target": tdir, "dt": dt, "script": script, "native": out})
            else:
                good += 1
        elif out.get("ret") == FAIL:
            good += 1
    chk.extra["native_traces_agreeing"] = chk.extra.get("native_traces_agreeing", 0) + good


def main(pid, tier):
    chk = Check("C19", tier)
    chk.xc.__init__(every=10 if tier == "thorough" else 25, first=2, cap=25 if tier == "thorough" else 6, tlimit_ms=30_000)
    chk.assumptions = [
        "integrator contract (stub): CVode(tout) returns an arbitrary int flag and time t; flag>=0 => t=tout; flag<0 => t_cur<=t<tout; the state is the exact solution at the returned time (modelled as y(t)=y0+t)",
        "CVodeReInit returns an arbitrary flag and resets the integrator clock; all CVodeSet*/Init calls return arbitrary flags",
        "log10/pow are uninterpreted with pow(10,log10 x)=x for x>0, pow>0 and strict monotonicity at the exponents used; IEEE rounding of that round trip is outside the claim",
        "real arithmetic for times and abundances",
        "inductive invariant: c<0, 0<d<=dt_init, ab_init=y0, and for c in [-4,-1]: ab = y0+(dt_init-d)+tau, 0<=tau<d, t_cur=tau",
        "cusparse Solve has no recovery ladder (template says so) and is outside the claim",
        "PyWrapSolve is compiled with -DPYMODULE against a declaration-only pybind11 shim; Solve is stubbed to return SUCCESS / FAIL",
    ]
    # a network with a temperature equation: NEQUATIONS = NSPECIES + 1, so a loop over the wrong one of the two is visible
    spec = {"reactions": [{"reactants": ["H", "e-"], "products": ["H+", "e-", "e-"], "alpha": 1.0, "reaction_type": 100}, {"reactants": ["H+", "e-"], "products": ["H"], "alpha": 1.0, "reaction_type": 100}],
            "network": {"cooling": ["CIC_HI"]},
            "targets": [dict(proj.TARGETS["dense"]), dict(proj.TARGETS["sparse"]), dict(proj.TARGETS["odeint"])]}
    p = proj.render("c19", spec)
    if not p.ok:
        chk.harness_error("render failed: " + str(p.meta.get("error")))
        return chk.finish()
    chk.programs = 3
    chk.bounds = {"equations": "3 species + temperature", "recovery_levels": "all (as unrolled by the code itself)", "substeps_per_level": "10*level", "monolithic_fault_levels": 2 if tier == "quick" else 3,
                  "flags": "all integers", "partial_times": "all reals in [t_cur, tout)"}
    for tdir in ("cvode_dense", "cvode_sparse"):
        neq = p.macros(tdir)["NEQUATIONS"]
        try:
            fields = class_fields(p, tdir)
        except Inconclusive as e:
            chk.unknown(f"{tdir}:encode", e)
            continue
        # the three analyses are independent: a code shape one of them cannot encode must not hide the others
        for nm, step in (("level-induction", lambda: check_level_induction(chk, p, tdir, neq, fields)), ("solve", lambda: check_solve(chk, p, tdir, neq, fields)),
                         ("native-traces", lambda: validate_traces(chk, p, tdir, 40 if tier == "quick" else 400))):
            try:
                step()
            except Inconclusive as e:
                chk.unknown(f"{tdir}:{nm}:encode", e)
    try:
        check_odeint(chk, p, "odeint_rosenbrock4", p.macros("odeint_rosenbrock4")["NEQUATIONS"])
    except Inconclusive as e:
        chk.unknown("odeint:encode", e)
    for tdir in ("cvode_dense", "cvode_sparse", "odeint_rosenbrock4"):
        try:
            check_pywrap(chk, p, tdir)
        except Exception as e:
            chk.unknown(f"{tdir}:PyWrapSolve", f"{type(e).__name__}: {e}")
    chk.extra["repo_fingerprint"] = proj.repo_fingerprint()
    chk.extra["stubs"] = H.STUB_DOC + ["CVode/CVodeReInit/CVodeSet*: nondeterministic integrator (see assumptions)", "integrate_adaptive: scenario 'returns' (state advanced by dt) / 'throws std::runtime_error'", "__cxa_throw: modelled as an exceptional return (landing pads interpreted)"]
    return chk.finish(rule="states = merged symbolic states (one per symbolic branch join) + 1 per run; transitions = integrator outcomes distinguished (3 classes per CVode call site, 2 per re-init/setup call); one obligation = one z3 query")
