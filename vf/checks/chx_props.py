"""Driver for the CrossHair-based (E2) checks."""
from __future__ import annotations

import os
import time

from ..chx import runner
from ..report import Check
from .. import proj

HDIR = os.path.join(os.path.dirname(os.path.dirname(os.path.abspath(__file__))), "chx", "harness")

# property -> [(harness file, {tier: per-condition timeout}, conditions only in thorough)]
PLAN = {
    "C20": [("h_c20.py", {"quick": 240, "thorough": 900}, set())],
    "C07": [("h_c07.py", {"quick": 240, "thorough": 900}, set())],
    "C09": [("h_c09.py", {"quick": 240, "thorough": 900}, set())],
    "C08": [("h_c08.py", {"quick": 240, "thorough": 900}, set())],
    "C14": [("h_c14s.py", {"quick": 200, "thorough": 900}, {"sym_set_allowed_later_full", "sym_remove_instance0"}),
            ("h_c14.py", {"quick": 200, "thorough": 900}, {"allowed_later_equals_constructed3"} | {f"history3_first_{n}" for n in ("add_instance", "add_string", "remove_index", "remove_instance", "remove_index_list", "remove_instance_list", "set_allowed", "set_required", "remove_duplicates", "reindex", "add_from_file")})],
    "C15": [("h_c15.py", {"quick": 420, "thorough": 1200}, {"dup_remove_leaves_one_per_class4"})],
}


def main(pid, tier, chk=None, plan_key=None):
    chk = chk or Check(pid, tier)
    proj.ensure_venv()
    t0 = time.time()
    samples = []
    for fname, tmo, thorough_only in PLAN[plan_key or pid]:
        path = os.path.join(HDIR, fname)
        conds = [n for n, _ in runner.conditions(path)]
        only = set(conds) if tier == "thorough" else set(conds) - thorough_only
        results = runner.run_module(path, tmo[tier], only=only, unblock=(fname in UNBLOCK_FILES))
        for r in results:
            name = f"{fname}:{r['name']}"
            chk.functions.add(name)
            twin = r["name"].endswith("_reach")
            if twin:
                # reachability twin: `post: False` must be refuted
                if r["verdict"] == "counterexample":
                    chk.canaries["expected_sat"] += 1
                    chk.canaries["got_sat"] += 1
                else:
                    chk.canaries["expected_sat"] += 1
                    chk.harness_error(f"reachability twin {name} was not refuted: {r['verdict']} {r['detail'][:200]}")
                continue
            if r["verdict"] == "confirmed":
                chk.ok(name)
                chk.nontrivial.add(name)
                chk.sample({"condition": name, "verdict": "Confirmed over all paths", "wall_s": round(r["wall"], 1)})
            elif r["verdict"] == "counterexample" and r["call"]:
                ok, desc = runner.replay(path, r["call"])
                chk.replays_done += 1
                if ok:
                    chk.violation(f"{pid}:{r['name']}:{r['call']}", f"{r['name']} fails for {r['call']} ({desc})", {"harness": path, "call": r["call"], "native": desc, "crosshair": r["detail"][-400:], "cmd": f"cd {HDIR} && PYTHONPATH={HDIR} {runner.PY} -c \"import {fname[:-3]} as h; print(h.{r['call']})\""})
                else:
                    chk.unknown(name, f"CrossHair counterexample {r['call']} does not reproduce natively ({desc})")
                    chk.harness_error(f"non-reproducing counterexample {name}: {r['call']}")
            else:
                chk.unknown(name, r["detail"][:300])
    chk.solver_s += time.time() - t0
    chk.programs += len(PLAN[plan_key or pid])
    chk.extra["repo_fingerprint"] = proj.repo_fingerprint()
    chk.extra["engine"] = "crosshair-tool 0.0.110 (z3), one process per condition, --report_all"
    return chk


UNBLOCK_FILES = {"h_c14.py", "h_c07.py"}

META = {
    "C07": dict(
        bounds={"formats": ["kida", "umist", "leeds", "uclchem", "naunet", "krome"], "families": {"reactant": "3 slots from species (incl. names at the column-width limit), marker tokens and empty", "product": "up to 5 slots from 8 species incl. empty", "numeric": "8x8x8 signed / exponent-notation / integer literals for alpha, beta, gamma",
                "code": "8 type codes (KIDA formula incl. out-of-range, UMIST two-letter codes, Leeds types, UCLCHEM markers incl. FREEZE window rule, native codes) x 8 windows x 8 index values", "file": "3 data lines with a blank line, a whitespace-only line and a comment/directive line at every position"}},
        assume=["format definitions are the independent encoders of vf/encoders.py", "each line is chosen by symbolic selectors (512 selections per condition, all explored), encoded, decoded by the real parser (untraced) and compared with the abstract reaction",
                "UMIST lines with more than one fit and free-form garbage are outside the claim"],
        rule="one condition = one CrossHair run to 'Confirmed over all paths' (format x field family)",
    ),
    "C09": dict(
        bounds={"names": "all ordered pairs of 44 names (ions up to 4 positive and 2 negative charges, three electron spellings, ortho/para labels, ice and gas pairs, grains, H2*, c-/l- isomers, D-isotopologues)", "surface spellings": "'#X' vs 'GX' with a custom prefix for 6 molecules",
                "projects": ["naming network (native file, hh93)", "minimal.kida", "primordial.krome with cooling", "UCLCHEM upper-case list with replacement (rr07)"], "artefacts": ["naunet_macros.h through the real preprocessor", "constant_indexes.py (ast)", "[summary] of naunet_config.toml written by `naunet render`", "enzo/naunet_enzo.h from `naunet render --patch enzo`"]},
        assume=["(a) name pairs are picked by symbolic selectors and evaluated untraced; (b) the per-project obligations are ground facts read from the generated files; the bijection is discharged as a z3 Distinct/range query",
                "identity classes of the 40 names are given by construction"],
        rule="one condition / one artefact comparison per project; distinct = distinct conditions or (project, artefact) pairs",
    ),
    "C08": dict(
        bounds={"pairs": "all ordered pairs of 14 clash-prone symbols (H/He, C/Cl/Ca, S/Si, N/Na/Ni, O, F/Fe, P) x counts {none,2,3,12} x charges {0,+,++,-}", "singles": "18 default elements x 4 counts x 6 charge states",
                "prefix/label": "prefix {none,'#','G' (custom)} x label {none,o,p,m} x 12 elements x counts x charges x second atom {none,H,O,D}", "triples": "all 14^3 concatenations of clash-prone symbols",
                "upper-case list": "UCLCHEM element list with replacement table: 10 x 11 symbols x counts x charges x ice prefix", "special": "electron spellings, grains, H2*, c-C3H2, l-C3H, oH2D+; 15 names with foreign characters must be rejected"},
        assume=["names are spelled from a composition chosen by symbolic selectors; the solver enumerates every selection, the real Species then parses untraced and must return exactly that composition (element counts, charge, phase, gas counterpart, mass number, is_atom, renamed name)",
                "mass numbers are compared with an independent table", "fully symbolic strings are NOT used: CrossHair 0.0.110's regex model produced counterexamples for Species._parse_molecule_name that do not reproduce natively (see DESIGN.md)"],
        rule="one condition = one CrossHair run to 'Confirmed over all paths'; distinct = distinct conditions",
    ),
    "C14": dict(
        bounds={"symbolic (h_c14s)": "networks of 2 reactions over stub species with symbolic integer identities in [0,2] (every aliasing pattern), allowed lists of 2 symbolic labels; add with/without allowed list, remove by index, re-examination under a later allowed list",
                "selected (h_c14)": "one operation out of 11 kinds (add instance/string/file, remove by index/list/instance/instance list, set allowed, set required, remove duplicates, reindex) from every pre-state with <=2 held reactions (pool of 7 real reactions) and 3 allowed lists; all histories of 2 operations (11x11x11 argument choices); histories of 3 in thorough",
                "cli": "naunet extend with --remove-duplicate, --remove-species, --reduce-by-species and combinations on a 7-reaction file"},
        assume=["stub species/reactions bypass name parsing (C08's subject) so that Network's list/set logic runs on symbolic values", "selector conditions: the solver enumerates every selection within the precondition, the real Network then runs untraced and is compared with an explicit model",
                "Changing the allowed list later is compared with construction as *sets* of reactions and species (the property's wording)", "CrossHair verdict 'Confirmed over all paths' is trusted"],
        rule="one condition = one CrossHair run to 'Confirmed over all paths' (or one command-line scenario compared with the model); distinct = distinct conditions",
    ),
    "C15": dict(
        bounds={"symbolic labels": "lists of <=4 integer labels in [0,3] (every equality pattern of 4 reactions)", "real reactions": "lists of <=3 selected from a pool of 17 (permuted reactants/products, two electron spellings, windows differing in both bounds or in one bound only, differing type, 3-body)", "modes": ["default", "brief", "minimal", "short"]},
        assume=["(a) the hash table algorithm is exercised with stub reactions whose identity is a symbolic integer (fully symbolic, all paths exhausted)", "(b) real Reaction objects are picked by symbolic selectors and then run untraced: the solver enumerates every selection within the bound",
                "string modes ('minimal','short') compare printed names: spelling-dependent by documentation"],
        rule="one condition = one CrossHair run to 'Confirmed over all paths'; distinct = distinct conditions confirmed",
    ),
}


def run(pid, tier):
    chk = main(pid, tier)
    m = META[pid]
    chk.bounds = m["bounds"]
    chk.assumptions = m["assume"]
    return chk.finish(rule=m["rule"])
