"""Driver for the CrossHair-based (E2) checks."""
from __future__ import annotations

import os
import time

from ..chx import runner
from ..report import Check
from .. import proj

HDIR = os.path.join(os.path.dirname(os.path.dirname(os.path.abspath(__file__))), "chx", "harness")

# property -> [(harness file, {tier: per-condition timeout}, conditions only in thorough)]
PLAN = {
    "C15": [("h_c15.py", {"quick": 150, "thorough": 900}, {"dup_remove_leaves_one_per_class4"})],
}


def main(pid, tier):
    chk = Check(pid, tier)
    proj.ensure_venv()
    t0 = time.time()
    samples = []
    for fname, tmo, thorough_only in PLAN[pid]:
        path = os.path.join(HDIR, fname)
        conds = [n for n, _ in runner.conditions(path)]
        only = set(conds) if tier == "thorough" else set(conds) - thorough_only
        results = runner.run_module(path, tmo[tier], only=only)
        for r in results:
            name = f"{fname}:{r['name']}"
            chk.functions.add(name)
            twin = r["name"].endswith("_reach")
            if twin:
                # reachability twin: `post: False` must be refuted
                if r["verdict"] == "counterexample":
                    chk.canaries["expected_sat"] += 1
                    chk.canaries["got_sat"] += 1
                else:
                    chk.canaries["expected_sat"] += 1
                    chk.harness_error(f"reachability twin {name} was not refuted: {r['verdict']} {r['detail'][:200]}")
                continue
            if r["verdict"] == "confirmed":
                chk.ok(name)
                chk.nontrivial.add(name)
                chk.sample({"condition": name, "verdict": "Confirmed over all paths", "wall_s": round(r["wall"], 1)})
            elif r["verdict"] == "counterexample" and r["call"]:
                ok, desc = runner.replay(path, r["call"])
                chk.replays_done += 1
                if ok:
                    chk.violation(f"{pid}:{r['name']}:{r['call']}", f"{r['name']} fails for {r['call']} ({desc})", {"harness": path, "call": r["call"], "native": desc, "crosshair": r["detail"][-400:], "cmd": f"cd {HDIR} && PYTHONPATH={HDIR} {runner.PY} -c \"import {fname[:-3]} as h; print(h.{r['call']})\""})
                else:
                    chk.unknown(name, f"CrossHair counterexample {r['call']} does not reproduce natively ({desc})")
                    chk.harness_error(f"non-reproducing counterexample {name}: {r['call']}")
            else:
                chk.unknown(name, r["detail"][:300])
    chk.solver_s = time.time() - t0
    chk.programs = len(PLAN[pid])
    chk.extra["repo_fingerprint"] = proj.repo_fingerprint()
    chk.extra["engine"] = "crosshair-tool 0.0.110 (z3), one process per condition, --report_all"
    return chk


META = {
    "C15": dict(
        bounds={"symbolic labels": "lists of <=4 integer labels in [0,3] (every equality pattern of 4 reactions)", "real reactions": "lists of <=3 selected from a pool of 10 (permuted reactants/products, two electron spellings, differing window / type, 3-body)", "modes": ["default", "brief", "minimal", "short"]},
        assume=["(a) the hash table algorithm is exercised with stub reactions whose identity is a symbolic integer (fully symbolic, all paths exhausted)", "(b) real Reaction objects are picked by symbolic selectors and then run untraced: the solver enumerates every selection within the bound",
                "string modes ('minimal','short') compare printed names: spelling-dependent by documentation"],
        rule="one condition = one CrossHair run to 'Confirmed over all paths'; distinct = distinct conditions confirmed",
    ),
}


def run(pid, tier):
    chk = main(pid, tier)
    m = META[pid]
    chk.bounds = m["bounds"]
    chk.assumptions = m["assume"]
    return chk.finish(rule=m["rule"])
