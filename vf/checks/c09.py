"""C09 -- one index per species: identifiers valid, unique and consistent everywhere.
(a) CrossHair harness h_c09.py; (b) per rendered project: the index tables of every
generated artefact are read back and asserted equal / bijective (z3 Distinct + range)."""
from __future__ import annotations

from ..paths import child_env
import ast
import os
import re
import subprocess

import z3

from .. import encoders, proj
from ..paths import REPO
from . import chx_props

IDENT = re.compile(r"^[A-Za-z_][A-Za-z0-9_]*$")


def _native_file(lines):
    return "\n".join(encoders.naunet(r) for r in lines) + "\n"


def projects():
    def rxn(i, r, p, code=100):
        return {"reactants": r, "products": p, "a": "1.000e-10", "b": "0.000e+00", "c": "0.000e+00", "tmin": "-1.00", "tmax": "-1.00", "idx": i, "code": code}

    naming = [rxn(1, ["H", "e-"], ["H-"]), rxn(2, ["H+", "E"], ["H"]), rxn(3, ["He++", "e-"], ["He+"]), rxn(4, ["oH2", "pH2D+"], ["oH2D+", "pH2"]), rxn(5, ["H2*", "H"], ["H2", "H"]),
              rxn(6, ["c-C3H2", "H+"], ["l-C3H2", "H+"]), rxn(7, ["Si", "CR"], ["Si+", "e-"], 101), rxn(8, ["N2", "D+"], ["N2D+"]), rxn(9, ["CO"], ["#CO"], 200), rxn(10, ["GRAIN0", "e-"], ["GRAIN-"]), rxn(11, ["Si+", "Si+"], ["Si++++", "e-", "e-"]),
              rxn(12, ["HCO+", "e-"], ["H", "CO"]), rxn(13, ["H", "#H"], ["H2"]), rxn(14, ["O-", "e-"], ["O--"]), rxn(15, ["GRAIN-", "e-"], ["GRAIN--"]), rxn(16, ["O", "e-"], ["O-"]),
              # a molecule and its ice that take part in the same number of reactions (ties in the connectivity order)
              rxn(17, ["O2"], ["#O2"], 200), rxn(18, ["#O2"], ["O2"], 201), rxn(19, ["NH3"], ["#NH3"], 200), rxn(20, ["#NH3"], ["NH3"], 201)]
    out = [("naming", "net.naunet", _native_file(naming), "naunet", {}, "hh93")]
    # required (extra) species that also occur in reactions -- same spelling, the other electron spelling, listed twice -- and one that does not
    out.append(("required-overlap", "net.naunet", _native_file(naming[:8] + [naming[11]]), "naunet", {"extra": "H,He,E,H,CO,Ne"}, ""))
    out.append(("minimal.kida", "minimal.kida", open(REPO + "/tests/data/minimal.kida").read(), "kida", {}, ""))
    out.append(("primordial", "primordial.krome", open(REPO + "/naunet/examples/primordial/primordial.krome").read(), "krome", {"elements": "e,H,D,He", "pseudo": "Photon", "cooling": "CIC_HI,RC_HII"}, ""))
    ucl = "\n".join(["H,H,NAN,H2,NAN,NAN,NAN,1e-17,0.0,0.0,0,0", "HE,CRP,NAN,HE+,E-,NAN,NAN,0.5,0.0,0.0,10,41000", "MG,H+,NAN,MG+,H,NAN,NAN,1e-9,0.0,0.0,10,41000", "SI,CL+,NAN,SI+,CL,NAN,NAN,1e-9,0.0,0.0,10,41000", "CO,FREEZE,NAN,#CO,NAN,NAN,NAN,1.0,0.0,0.0,0.0,10000.0",
                     # one-letter elements whose name + neutral/charge suffix spells a two-letter element of the list (S+I = SI, N+I = NI)
                     "S,H+,NAN,S+,H,NAN,NAN,1e-9,0.0,0.0,10,41000", "N,H+,NAN,N+,H,NAN,NAN,1e-9,0.0,0.0,10,41000", "NI,H+,NAN,NI+,H,NAN,NAN,1e-9,0.0,0.0,10,41000", "CS,HE+,NAN,C+,S,HE,NAN,1e-9,0.0,0.0,10,41000"]) + "\n"
    out.append(("uclchem-upper", "net.ucl", ucl, "uclchem", {"elements": "E,H,HE,C,N,O,MG,SI,S,CL,NI", "pseudo": "CR,CRP,PHOTON,CRPHOT", "replacement": "E:e,HE:He,MG:Mg,SI:Si,CL:Cl,NI:Ni"}, "rr07"))
    return out


def cli_args(fname, fmt, opt, model, solver, device, method):
    return ["--name", "t", "--description", "d", "--loading", "", "--elements", opt.get("elements", ""), "--pseudo-elements", opt.get("pseudo", "CR"), "--element-replacement", opt.get("replacement", ""),
            "--surface-prefix", "#", "--bulk-prefix", "@", "--allowed-species", "", "--extra-species", opt.get("extra", ""), "--binding", "", "--yield", "", "--grain-symbol", "GRAIN", "--grain-model", model,
            "--network-files", fname, "--file-formats", fmt, "--heating", "", "--cooling", opt.get("cooling", ""), "--shielding", "", "--solver", solver, "--device", device, "--method", method]


def check_project(chk, name, fname, content, fmt, opt, model, kind):
    tgt = proj.TARGETS[kind]
    tdir = tgt["dir"]
    tag = f"{name}/{tdir}"
    args = cli_args(fname, fmt, opt, model, tgt["solver"], tgt["device"], tgt["method"])
    if not opt.get("elements"):
        i = args.index("--elements")
        args[i + 1] = "e,E,H,D,He,C,N,O,F,Ne,Na,Mg,Al,Si,P,S,Cl,Ar,Ca,Fe,Ni"
        j = args.index("--pseudo-elements")
        args[j + 1] = "CR,CRP,XRAY,Photon,PHOTON,CRPHOT,X,M,p,o,m,c-,l-,\\*,g"
    p = proj.render_cli(f"c09-{name}", [{"name": fname, "content": content}], args, tdir)
    if not p.ok:
        chk.unknown(tag, f"command-line rendering refused: {p.meta.get('error', '')[-200:]}")
        return
    chk.programs += 1
    pdir = p.tdir(tdir)
    # 1. macro names as written in the header
    hdr = open(os.path.join(pdir, "include", "naunet_macros.h")).read()
    names = re.findall(r"^#define (IDX_\S+)\s+(.*)$", hdr, re.M)
    bad = [n for n, _ in names if not IDENT.match(n)]
    if bad:
        chk.violation(f"{tag}:macro-name:{bad[0]}", f"generated index macro {bad[0]!r} is not a legal identifier", {"case": name, "line": bad[0]})
        return
    if len({n for n, _ in names}) != len(names):
        dup = sorted(n for n, _ in names if [m for m, _ in names].count(n) > 1)
        chk.violation(f"{tag}:macro-duplicate:{dup[0]}", f"index macro {dup[0]} is defined twice: two species share one identifier", {"case": name, "duplicates": dup})
        return
    chk.ok(f"{tag}:identifiers")
    try:
        macros = p.macros(tdir)
    except proj.RenderError as e:
        chk.violation(f"{tag}:macros-header", f"naunet_macros.h is not valid: {str(e)[-200:]}", {"case": name})
        return
    NS, NE = macros["NSPECIES"], macros["NELEMENTS"]
    spec = {k: v for k, v in macros.items() if k.startswith("IDX_") and not k.startswith("IDX_ELEM_") and k != "IDX_TGAS"}
    elem = {k: v for k, v in macros.items() if k.startswith("IDX_ELEM_")}
    # 2. bijection onto 0..N-1 as a solver query
    s = z3.Solver()
    for group, n, what in ((spec, NS, "species"), (elem, NE, "elements")):
        xs = {k: z3.Int(k) for k in group}
        s.push()
        s.add([xs[k] == v for k, v in group.items()])
        s.add(z3.Or(z3.Not(z3.Distinct(*xs.values())) if len(xs) > 1 else z3.BoolVal(False), z3.Or([z3.Or(x < 0, x >= n) for x in xs.values()] or [z3.BoolVal(False)]), z3.IntVal(len(xs)) != n))
        r = str(s.check())
        s.pop()
        if r == "unsat":
            chk.ok(f"{tag}:bijection:{what}")
            chk.nontrivial.add(f"{tag}:{what}")
        else:
            chk.violation(f"{tag}:bijection:{what}", f"{what} index macros are not a bijection onto 0..{n - 1}: {sorted(group.items(), key=lambda kv: kv[1])[:8]}", {"case": name, "table": group, "N": n})
    # 3. Python constants module
    py = os.path.join(pdir, "python", "pynaunet_model", "constant_indexes.py")
    if os.path.exists(py):
        try:
            tree = ast.parse(open(py).read())
            consts = {t.targets[0].id: t.value.value for t in tree.body if isinstance(t, ast.Assign) and isinstance(t.value, ast.Constant)}
            want = dict(spec)
            want.update(elem)
            if consts == want:
                chk.ok(f"{tag}:python-constants")
            else:
                diff = {k: (want.get(k), consts.get(k)) for k in set(want) | set(consts) if want.get(k) != consts.get(k)}
                chk.violation(f"{tag}:python-constants", f"constant_indexes.py disagrees with the C macros: {dict(list(diff.items())[:5])}", {"case": name, "diff": diff})
        except SyntaxError as e:
            chk.violation(f"{tag}:python-constants-syntax", f"generated constant_indexes.py is not valid Python: {e}", {"case": name})
    # 3b. the other Python module: counts and per-slot lists
    pyc = os.path.join(pdir, "python", "pynaunet_model", "constants.py")
    if os.path.exists(pyc):
        try:
            ctree = ast.parse(open(pyc).read())
            cv = {}
            for t in ctree.body:
                if isinstance(t, ast.Assign) and len(t.targets) == 1 and isinstance(t.targets[0], ast.Name):
                    try:
                        cv[t.targets[0].id] = ast.literal_eval(t.value)
                    except ValueError:
                        pass
            by_slot = {v: k[4:] for k, v in spec.items()}
            probs = []
            eq = lambda what, got, want: probs.append(f"{what} = {got!r}, expected {want!r}") if got != want else None
            eq("NSPEC", cv.get("NSPEC"), NS)
            eq("NELEM", cv.get("NELEM"), NE)
            eq("NREAC", cv.get("NREAC"), macros.get("NREACTIONS"))
            eq("NGAS + NICE", (cv.get("NGAS") or 0) + (cv.get("NICE") or 0), NS)
            eq("len(ALL_SPECIES)", len(cv.get("ALL_SPECIES", [])), NS)
            eq("ALL_ALIAS (slot order)", list(cv.get("ALL_ALIAS", [])), [by_slot.get(i) for i in range(NS)])
            eq("len(ALL_ELEMENTS)", len(cv.get("ALL_ELEMENTS", [])), NE)
            # ALL_ELEMENTS lists the atomic *species* (a grain element appears under its species name, GRAIN0): where the
            # name is an element symbol its position is the element slot
            eq("slots of ALL_ELEMENTS", [elem.get("IDX_ELEM_" + e, i) for i, e in enumerate(cv.get("ALL_ELEMENTS", []))], list(range(NE)))
            eq("NGAS", cv.get("NGAS"), len(cv.get("ALL_GAS_SPECIES", [])))
            eq("NICE", cv.get("NICE"), len(cv.get("ALL_ICE_SPECIES", [])))
            eq("NGRAIN", cv.get("NGRAIN"), len(cv.get("ALL_GRAIN_SPECIES", [])))
            eq("gas + ice species (as a set)", sorted(list(cv.get("ALL_GAS_SPECIES", [])) + list(cv.get("ALL_ICE_SPECIES", []))), sorted(cv.get("ALL_SPECIES", [])))
            eq("grain species outside ALL_SPECIES", [g for g in cv.get("ALL_GRAIN_SPECIES", []) if g not in cv.get("ALL_SPECIES", [])], [])
            eq("HAS_THERMAL", bool(cv.get("HAS_THERMAL")), "IDX_TGAS" in macros)
            eq("keys of TABLE_SPECIES_GROUPED_BY_ELEMENTS", list(cv.get("TABLE_SPECIES_GROUPED_BY_ELEMENTS", {})), list(cv.get("ALL_ELEMENTS", [])))
            probs = [x for x in probs if x]
            if probs:
                chk.violation(f"{tag}:python-counts", f"pynaunet_model/constants.py disagrees with the C macros / with itself: {probs[:3]}", {"case": name, "problems": probs, "file": pyc})
            else:
                chk.ok(f"{tag}:python-counts")
        except SyntaxError as e:
            chk.violation(f"{tag}:python-counts-syntax", f"generated constants.py is not valid Python: {e}", {"case": name})
    # 4. project summary written by the render command
    import tomlkit

    summ = tomlkit.loads(open(os.path.join(pdir, "naunet_config.toml")).read())["summary"]
    alias = list(summ["list_of_species_alias"])
    ok = summ["num_of_species"] == NS and summ["num_of_elements"] == NE and len(alias) == NS and all(spec.get("IDX_" + a) == i for i, a in enumerate(alias)) and len(summ["list_of_species"]) == NS
    if ok:
        chk.ok(f"{tag}:summary")
    else:
        chk.violation(f"{tag}:summary", f"[summary] of naunet_config.toml disagrees with the macros (NSPECIES={NS}, summary {summ['num_of_species']}, aliases {alias[:6]}...)", {"case": name})
    # 5. Enzo patch tables
    if kind == "dense":
        # the patch is rendered by a separate interpreter run with another string-hash seed: the slot order must
        # not depend on set iteration order
        env = dict(os.environ, TQDM_DISABLE="1", PYTHONHASHSEED="7")
        child_env(env)
        r = subprocess.run([proj.PY, "-c", "import sys; from naunet.console import main; sys.exit(main())", "render", "--no-interaction", "--force", "--patch", "enzo"], capture_output=True, text=True, cwd=pdir, env=env, timeout=600)
        eh = os.path.join(pdir, "enzo", "naunet_enzo.h")
        if r.returncode != 0 or not os.path.exists(eh):
            chk.notes.append(f"{tag}: enzo patch not rendered ({(r.stderr or r.stdout).strip().splitlines()[-1:]})")
        else:
            txt = open(eh).read()
            defs = re.findall(r"^#define A_(\S+)\s+(\S+)$", txt, re.M)
            table = re.search(r"A_Table\[NSPECIES\] = \{(.*?)\};", txt, re.S)
            order = [x.strip()[2:] for x in table.group(1).split(",") if x.strip()] if table else []
            good = len(order) == NS and all(spec.get("IDX_" + a) == i for i, a in enumerate(order)) and {a for a, _ in defs} == set(order) and all(IDENT.match("A_" + a) for a, _ in defs)
            # the other files of the patch name each species' field by its alias (<alias>Num, <alias>Density,
            # IDX_<alias>): every species must be there under the alias the macros use
            known = {k[4:] for k in spec if not re.fullmatch(r"[eE]M", k[4:])}  # Enzo has its own electron field (DeNum / ElectronDensity)
            for root, _, fs in os.walk(os.path.join(pdir, "enzo")):
                for fn in fs:
                    try:
                        ptxt = open(os.path.join(root, fn)).read()
                    except (UnicodeDecodeError, OSError):
                        continue
                    for suffix, found in (("Num", set(re.findall(r"\b(\w+?)Num\b", ptxt))), ("Density", set(re.findall(r"\b(\w+?)Density\b", ptxt)))):
                        if len(found & known) >= max(1, len(known) // 2) and known - found:
                            good = False
                            chk.violation(f"{tag}:enzo-fields:{fn}:{suffix}", f"patch file {fn} has no <alias>{suffix} field for the species {sorted(known - found)[:6]} (it names them differently from the index macros)", {"case": name, "file": fn, "missing": sorted(known - found), "foreign": sorted(x for x in found if x not in known)[:20]})
                    undefined = {x for x in re.findall(r"\bIDX_(\w+)\b", ptxt) if "IDX_" + x not in macros}
                    if undefined:
                        good = False
                        chk.violation(f"{tag}:enzo-macros:{fn}", f"patch file {fn} uses index macros that naunet_macros.h does not define: {sorted(undefined)[:6]}", {"case": name, "file": fn, "undefined": sorted(undefined)})
            # the field-type enumeration of the patched typedefs.h: one identifier and one value per field, the
            # end marker after all of them, one <alias>Density per species of the network
            tdf = next((os.path.join(r_, f_) for r_, _, fs_ in os.walk(os.path.join(pdir, "enzo")) for f_ in fs_ if f_ == "typedefs.h"), None)
            if tdf:
                ttxt = open(tdf).read()
                blk = ttxt[ttxt.index("const field_type"):]
                blk = blk[: blk.index(";") + 1]
                keep, lines_ = [True], []
                for ln in blk.splitlines():
                    t_ = ln.strip()
                    if t_.startswith("#ifdef"):
                        keep.append(keep[-1] and t_.split()[1] == "USE_NAUNET")
                    elif t_.startswith("#ifndef"):
                        keep.append(keep[-1] and t_.split()[1] != "USE_NAUNET")
                    elif t_.startswith("#else"):
                        keep[-1] = (not keep[-1]) and (len(keep) < 2 or keep[-2])
                    elif t_.startswith("#endif"):
                        keep.pop()
                    elif keep[-1]:
                        lines_.append(ln)
                ents = re.findall(r"\b([A-Za-z_]\w*)\s*=\s*(\d+)", "\n".join(lines_))
                names_ = [n for n, _ in ents]
                vals_ = [int(v) for _, v in ents]
                probs = []
                dupn = sorted({n for n in names_ if names_.count(n) > 1})
                if dupn:
                    probs.append(f"field identifiers defined twice: {dupn[:6]}")
                # (stock Enzo reuses a few small values for fields of different problem types; the values the patch
                # adds for the network's species, 104 and above, and the end marker must be distinct)
                dupv = sorted({v for v in vals_ if v >= 104 and vals_.count(v) > 1})
                if dupv:
                    probs.append(f"field values used twice: {[(v, [n for n, w in ents if int(w) == v]) for v in dupv[:4]]}")
                fu = dict(ents).get("FieldUndefined")
                if fu is None or any(v >= int(fu) for n, v in zip(names_, vals_) if n != "FieldUndefined"):
                    probs.append(f"FieldUndefined = {fu} is not above every field value (max {max(v for n, v in zip(names_, vals_) if n != 'FieldUndefined')})")
                missing = sorted(a for a in known if names_.count(a + "Density") != 1)
                if missing:
                    probs.append(f"species without exactly one <alias>Density field: {missing[:6]}")
                if probs:
                    chk.violation(f"{tag}:enzo-field-types", f"typedefs.h of the Enzo patch: {probs[:3]}", {"case": name, "problems": probs, "entries_tail": ents[-40:]})
                else:
                    chk.ok(f"{tag}:enzo-field-types")
            if good:
                chk.ok(f"{tag}:enzo-tables")
            else:
                chk.violation(f"{tag}:enzo-tables", f"naunet_enzo.h per-species table disagrees with the index macros (order {order[:6]}..., NSPECIES={NS})", {"case": name})
    chk.sample({"project": tag, "NSPECIES": NS, "NELEMENTS": NE, "species_macros": dict(list(spec.items())[:6])}, limit=12)


def check_enzo_spelling(chk, name, fname, content, fmt, opt, model):
    """the Enzo patch of the same network with the electron spelled e-, E and E-: identical files once the alias of
    the electron (eM / EM, which follows the spelling consistently) and its quoted name are identified -- the
    patch's own electron field (De) must be chosen by species identity, not by spelling"""
    import difflib

    tgt = proj.TARGETS["dense"]
    tdir = tgt["dir"]
    outs = {}
    for spell in ("e-", "E", "E-"):
        txt = re.sub(r"(?<=,)\s*(e-|E)\s*(?=,)", lambda m: f"{spell:>12}", content)
        args = cli_args(fname, fmt, opt, model, tgt["solver"], tgt["device"], tgt["method"])
        args[args.index("--elements") + 1] = "e,E,H,D,He,C,N,O,F,Ne,Na,Mg,Al,Si,P,S,Cl,Ar,Ca,Fe,Ni"
        args[args.index("--pseudo-elements") + 1] = "CR,CRP,XRAY,Photon,PHOTON,CRPHOT,X,M,p,o,m,c-,l-,\\*,g"
        p = proj.render_cli(f"c09-enzo-{name}-{spell.replace('-', 'm')}", [{"name": fname, "content": txt}], args, tdir)
        if not p.ok:
            chk.unknown(f"{name}/enzo-spelling:{spell}", f"command-line rendering refused: {p.meta.get('error', '')[-200:]}")
            return
        pdir = p.tdir(tdir)
        env = dict(os.environ, TQDM_DISABLE="1", PYTHONHASHSEED="0")
        child_env(env)
        r = subprocess.run([proj.PY, "-c", "import sys; from naunet.console import main; sys.exit(main())", "render", "--no-interaction", "--force", "--patch", "enzo"], capture_output=True, text=True, cwd=pdir, env=env, timeout=600)
        if r.returncode != 0 or not os.path.isdir(os.path.join(pdir, "enzo")):
            chk.unknown(f"{name}/enzo-spelling:{spell}", f"enzo patch not rendered: {(r.stderr or r.stdout).strip()[-200:]}")
            return
        outs[spell] = os.path.join(pdir, "enzo")
        chk.programs += 1

    def canon(t):
        t = re.sub(r"\b(IDX_|A_)?EM\b", lambda m: (m.group(1) or "") + "eM", t)
        return re.sub(r"'E-?'", "'e-'", t)

    for spell in ("E", "E-"):
        tag = f"{name}/enzo-spelling:{spell}"
        bad = []
        for root, _, fs in os.walk(outs["e-"]):
            for fn in sorted(fs):
                other = os.path.join(root.replace(outs["e-"], outs[spell]), fn)
                try:
                    a = canon(open(os.path.join(root, fn)).read()).splitlines()
                    b = canon(open(other).read()).splitlines() if os.path.exists(other) else None
                except (UnicodeDecodeError, OSError):
                    continue
                if b is None:
                    bad.append((fn, ["file missing"]))
                    continue
                d = [l for l in difflib.unified_diff(a, b, lineterm="", n=0) if l[:1] in "+-" and not l.startswith(("+++", "---"))]
                if d:
                    bad.append((fn, d[:6]))
        if bad:
            chk.violation(f"{tag}:{bad[0][0]}", f"Enzo patch of the same network differs when the electron is spelled {spell!r} instead of 'e-' (beyond the alias eM/EM): {bad[0][0]}: {bad[0][1][:4]}", {"case": name, "spelling": spell, "files": {fn: d for fn, d in bad[:8]}})
        else:
            chk.ok(tag)
            chk.nontrivial.add(tag)


def check_export_summary(chk, name, fname, content, fmt, opt, model):
    """export path: the [summary] that Network.export writes lists species names and aliases in slot order"""
    import tomlkit

    tgt = proj.TARGETS["dense"]
    tdir = tgt["dir"]
    net = {"filelist": fname, "fileformats": fmt, "grain_model": model}
    if opt.get("elements"):
        net["elements"] = opt["elements"].split(",")
        net["pseudo_elements"] = opt.get("pseudo", "CR").split(",")
    else:
        net["elements"] = "e,E,H,D,He,C,N,O,F,Ne,Na,Mg,Al,Si,P,S,Cl,Ar,Ca,Fe,Ni".split(",")
        net["pseudo_elements"] = "CR,CRP,XRAY,Photon,PHOTON,CRPHOT,X,M,p,o,m,c-,l-,\\*,g".split(",")
    if opt.get("extra"):
        net["required_species"] = [x for x in opt["extra"].split(",") if x]
    p = proj.render(f"c09-export-{name}", {"files": [{"name": fname, "content": content}], "network": net, "targets": [dict(tgt)], "ops": [{"op": "export", "name": tdir, "prefix": "exp"}]})
    tag = f"{name}/export"
    if not p.ok or not p.target_ok(tdir):
        chk.unknown(tag, f"API rendering refused: {str(p.meta.get('error'))[-160:]}")
        return
    cfg = os.path.join(p.dir, "exp", tdir, "naunet_config.toml")
    if not os.path.exists(cfg):
        chk.unknown(tag, "export wrote no configuration file")
        return
    chk.programs += 1
    summ = tomlkit.loads(open(cfg).read())["summary"]
    macros = p.macros(tdir)
    order = sorted(p.meta["species"], key=lambda s_: macros["IDX_" + s_["alias"]])
    names, aliases = [s_["name"] for s_ in order], [s_["alias"] for s_ in order]
    got_n, got_a = list(summ["list_of_species"]), list(summ["list_of_species_alias"])
    if got_n == names and got_a == aliases and summ["num_of_species"] == len(names):
        chk.ok(f"{tag}:summary")
        chk.nontrivial.add(f"{tag}:summary")
    else:
        i = next((k for k in range(min(len(got_n), len(names))) if got_n[k] != names[k] or (k < len(got_a) and got_a[k] != aliases[k])), None)
        chk.violation(f"{tag}:summary-order", f"[summary] written by Network.export does not list the species in slot order: position {i} holds {got_n[i] if i is not None and i < len(got_n) else None!r} / {got_a[i] if i is not None and i < len(got_a) else None!r}, the index macros put {names[i] if i is not None else None!r} / {aliases[i] if i is not None else None!r} there",
                      {"case": name, "list_of_species": got_n, "list_of_species_alias": got_a, "slot_order_names": names, "slot_order_aliases": aliases})


def check_late_required(chk, name, fname, content, fmt, opt, model):
    """history: the species list is looked at, then the required species are assigned through the property, then
    the code is generated: every artefact has the slots of a network constructed with those species"""
    tgt = proj.TARGETS["dense"]
    tdir = tgt["dir"]
    net = {"filelist": fname, "fileformats": fmt, "grain_model": model}
    req = [x for x in opt["extra"].split(",") if x]
    base = {"files": [{"name": fname, "content": content}], "targets": [dict(tgt)]}
    p0 = proj.render(f"c09-late-{name}-ctor", dict(base, network=dict(net, required_species=req)))
    code = f"n0 = len(net.species); e0 = len(net.elements); net.required_species = {req!r}"
    p1 = proj.render(f"c09-late-{name}-setter", dict(base, network=dict(net), ops=[{"op": "exec", "code": code}]))
    # and back: required species taken off the list again lose their slots
    code2 = f"net.required_species = {req!r}; n0 = len(net.species); net.required_species = []"
    p2 = proj.render(f"c09-late-{name}-cleared", dict(base, network=dict(net), ops=[{"op": "exec", "code": code2}]))
    p3 = proj.render(f"c09-late-{name}-plain", dict(base, network=dict(net)))
    tag = f"{name}/late-required"
    for a_, b_, what in ((p0, p1, "assigned after the species list had been read"), (p3, p2, "assigned and cleared again")):
        if not (a_.ok and b_.ok and a_.target_ok(tdir) and b_.target_ok(tdir)):
            chk.unknown(f"{tag}:{what}", f"API rendering refused: {str((a_.meta.get('error'), b_.meta.get('error')))[-200:]}")
            continue
        chk.programs += 2
        ma = {k: v for k, v in a_.macros(tdir).items() if k.startswith(("IDX_", "NSPECIES", "NELEMENTS", "NEQUATIONS"))}
        mb = {k: v for k, v in b_.macros(tdir).items() if k.startswith(("IDX_", "NSPECIES", "NELEMENTS", "NEQUATIONS"))}
        if ma == mb:
            chk.ok(f"{tag}:{what}")
            chk.nontrivial.add(f"{tag}:{what}")
        else:
            diff = sorted(set(ma.items()) ^ set(mb.items()))[:8]
            chk.violation(f"{tag}:{what}", f"required species {what}: the index macros differ from those of a network constructed with the same required species ({diff})",
                          {"case": name, "required": req, "history": code if b_ is p1 else code2, "macros_constructed": ma, "macros_history": mb})


def run(pid, tier):
    chk = chx_props.main("C09", tier)
    for name, fname, content, fmt, opt, model in projects():
        if opt.get("extra"):
            try:
                check_late_required(chk, name, fname, content, fmt, opt, model)
            except Exception as e:
                chk.harness_error(f"{name}/late-required: {type(e).__name__}: {e}")
    for name, fname, content, fmt, opt, model in projects():
        if name in ("naming", "required-overlap") or tier == "thorough":
            try:
                check_export_summary(chk, name, fname, content, fmt, opt, model)
            except Exception as e:
                chk.harness_error(f"{name}/export: {type(e).__name__}: {e}")
    for name, fname, content, fmt, opt, model in projects():
        if name == "naming":
            try:
                check_enzo_spelling(chk, name, fname, content, fmt, opt, model)
            except Exception as e:
                chk.harness_error(f"{name}/enzo-spelling: {type(e).__name__}: {e}")
    for name, fname, content, fmt, opt, model in projects():
        for kind in (["dense", "odeint"] if tier == "thorough" or name == "naming" else ["dense"]):
            try:
                check_project(chk, name, fname, content, fmt, opt, model, kind)
            except Exception as e:
                chk.harness_error(f"{name}/{kind}: {type(e).__name__}: {e}")
    m = chx_props.META["C09"]
    chk.bounds = m["bounds"]
    chk.assumptions = m["assume"]
    return chk.finish(rule=m["rule"])
