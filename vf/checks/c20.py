"""C20 -- configuration round trip: what is configured is what is rendered.

E1 part: for bundled examples and for option-value classes, the project rendered
through `naunet init` -> naunet_config.toml -> `naunet render` is compared, term by
term over all inputs, with the project rendered through Network(...) with the
requested description; the written TOML is compared with the request.
(The CrossHair part on the option-string parsing lives in chx/harness/h_c20.py.)"""
from __future__ import annotations

import concurrent.futures as cf
import importlib
import multiprocessing as mp
import os
import time
import traceback

import z3

from .. import ode, proj
from ..irsym import Inconclusive, R, inv_axioms
from ..report import Check

from ..paths import REPO
EX = REPO + "/naunet/examples"


from ..xcheck import XCheck

XC = XCheck()

def example_request(name):
    """the network description an example asks for, as plain data"""
    import importlib.util

    spec = importlib.util.spec_from_file_location(f"ex_{name}", os.path.join(EX, name, "__init__.py"))
    m = importlib.util.module_from_spec(spec)
    spec.loader.exec_module(m)
    return {
        "files": [m.files] if m.files else [], "formats": [m.formats] if m.formats else [], "elements": list(m.elements), "pseudo_elements": list(m.pseudo_elements),
        "replacement": dict(m.element_replacement), "allowed": list(m.allowed_species), "extra": list(m.extra_species), "binding": dict(m.binding_energy), "yields": dict(m.photon_yield),
        "heating": list(m.heating), "cooling": list(m.cooling), "shielding": dict(m.shielding), "grain_model": m.grain_model, "grain_symbol": m.grain_symbol, "surface_prefix": m.surface_prefix,
        "bulk_prefix": m.bulk_prefix, "rate_modifier": dict(m.rate_modifier), "ode_modifier": dict(m.ode_modifier), "srcdir": os.path.join(EX, name),
    }


def base_request(**kw):
    r = {"files": [], "formats": [], "elements": [], "pseudo_elements": [], "replacement": {}, "allowed": [], "extra": [], "binding": {}, "yields": {}, "heating": [], "cooling": [], "shielding": {},
         "grain_model": "", "grain_symbol": "GRAIN", "surface_prefix": "#", "bulk_prefix": "@", "rate_modifier": {}, "ode_modifier": {}, "srcdir": None}
    r.update(kw)
    return r


def _numbers_in_rate_modifier(text):
    import tomlkit

    doc = tomlkit.loads(text)
    tab = doc["chemistry"]["rate_modifier"]
    for k in list(tab):
        tab[k] = float(str(tab[k]))
    return tomlkit.dumps(doc)


def to_cli(req, solver, device, method, style="plain"):
    """option strings as a user would type them; style 'spaced' puts blanks around separators"""
    j = ", " if style == "spaced" else ","
    kv = (lambda k, v: f" {k} = {v}") if style == "spaced" else (lambda k, v: f"{k}={v}")
    kc = (lambda k, v: f" {k} : {v} ") if style == "spaced" else (lambda k, v: f"{k}:{v}")
    a = ["--name", "proj", "--description", "d", "--loading", "", "--elements", j.join(req["elements"]), "--pseudo-elements", j.join(req["pseudo_elements"]),
         "--element-replacement", ",".join(kc(k, v) for k, v in req["replacement"].items()), "--surface-prefix", req["surface_prefix"], "--bulk-prefix", req["bulk_prefix"],
         "--allowed-species", j.join(req["allowed"]), "--extra-species", j.join(req["extra"]), "--binding", ",".join(kv(k, v) for k, v in req["binding"].items()),
         "--yield", ",".join(kv(k, v) for k, v in req["yields"].items()), "--grain-symbol", req["grain_symbol"], "--grain-model", req["grain_model"],
         "--network-files", j.join(req["files"]), "--file-formats", j.join(req["formats"]), "--heating", j.join(req["heating"]), "--cooling", j.join(req["cooling"]),
         "--shielding", ",".join(kc(k, v) for k, v in req["shielding"].items()), "--solver", solver, "--device", device, "--method", method]
    for k, v in req["rate_modifier"].items():
        a += ["--rate-modifier", f"{k}:{v}"]
    for sp, d in req["ode_modifier"].items():
        for f, deps in zip(d["factors"], d["reactants"]):
            a += ["--ode-modifier", f"{sp}:{f},[{' '.join(deps)}]"]
    return a


def to_api_spec(req, target, workfiles):
    kw = {"elements": req["elements"], "pseudo_elements": req["pseudo_elements"], "allowed_species": req["allowed"], "required_species": req["extra"],
          "species_kwargs": {"grain_symbol": req["grain_symbol"], "surface_prefix": req["surface_prefix"], "bulk_prefix": req["bulk_prefix"]},
          "heating": req["heating"], "cooling": req["cooling"], "shielding": req["shielding"], "grain_model": req["grain_model"],
          "rate_modifier": {str(k): v for k, v in req["rate_modifier"].items()}, "ode_modifier": req["ode_modifier"]}
    if req["files"]:
        kw["filelist"] = list(req["files"])
        kw["fileformats"] = list(req["formats"])
    pre = [{"op": "exec", "code": "from naunet.species import Species\nSpecies._replacement = %r\n" % (req["replacement"],)}]
    if req["binding"] or req["yields"]:
        pre.append({"op": "exec", "code": "from naunet.species import Species\nfrom naunet.chemistrydata import update_binding_energy, update_photon_yield\n"
                    f"Species.set_known_elements({req['elements']!r}); Species.set_known_pseudoelements({req['pseudo_elements']!r})\n"
                    f"kw = dict(grain_symbol={req['grain_symbol']!r}, surface_prefix={req['surface_prefix']!r}, bulk_prefix={req['bulk_prefix']!r})\n"
                    f"update_binding_energy({{Species(k, **kw).name: v for k, v in {req['binding']!r}.items()}})\n"
                    f"update_photon_yield({{Species(k, **kw).name: v for k, v in {req['yields']!r}.items()}})\n"})
    spec = {"files": workfiles, "network": kw, "pre": pre, "targets": [dict(target)]}
    if not req["files"]:
        spec["reactions_empty_list"] = True
    return spec


CASES = {
    # name: (request builder, [(solver, device, method, tdir key)], option style)
    "example-minimal": (lambda: example_request("minimal"), ["dense", "odeint"], "plain"),
    "example-primordial": (lambda: example_request("primordial"), ["dense", "sparse"], "plain"),
    "example-empty": (lambda: example_request("empty"), ["dense"], "plain"),
    "spaced-lists": (lambda: dict(example_request("primordial"), cooling=["CIC_HI", "RC_HII"]), ["dense"], "spaced"),
    "extra-species+modifiers": (lambda: dict(example_request("minimal"), allowed=["H", "C2", "C", "CH", "H2", "C2H"], extra=["H2", "C2H"], rate_modifier={4894: "1.5e-10*zeta"}, ode_modifier={"H": {"factors": ["2.0"], "reactants": [["C", "CH"]]}}), ["dense"], "plain"),
    # extra (required) species without any allowed-species restriction: the empty allowed list means "no restriction"
    "extra-species-only": (lambda: base_request(files=["ice.naunet"], formats=["naunet"], elements=["H", "C", "O"], pseudo_elements=["CR"], grain_model="hh93", extra=["O2", "CH", "#O2"], _ice=True), ["dense"], "plain"),
    # an element list with an explicitly *empty* pseudo-element list: nothing is a pseudo element, so a species named like a
    # built-in one (the third body M) is an ordinary species
    "empty-pseudo-list": (lambda: base_request(files=["m.krome"], formats=["krome"], elements=["H", "C", "M"], pseudo_elements=[],
                                               _files={"m.krome": "@format:idx,R,R,R,P,P,P,Tmin,Tmax,rate\n1,H,H,M,H2,M,,NONE,NONE,1d-30\n2,C,H,,CH,,,NONE,NONE,1d-17\n3,CH,M,,C,H,M,10,1d4,2.5d-11*T32\n"}), ["dense"], "plain"),
    # a network file without reaction indices (numbered 0, 1, ... in joining order) with a modifier on reaction 0
    "unindexed-krome-modifier-0": (lambda: base_request(files=["u.krome"], formats=["krome"], elements=["H", "C"], pseudo_elements=[], rate_modifier={0: "1.25e-10", 2: "3.5e-11*Tgas"},
                                                        _files={"u.krome": "@format:R,R,P,P,Tmin,Tmax,rate\nC,C,C2,,NONE,NONE,2.5d-10*T32\nC,H,CH,,NONE,NONE,1d-17\nCH,H,C,H2,10,1d4,1.1d-10*T32**0.5\n"}), ["dense"], "plain"),
    # the user rewrites the modifier values of the configuration file as TOML numbers (0.0 switches a reaction off)
    "modifier-toml-numbers": (lambda: dict(example_request("minimal"), rate_modifier={4894: "0.0", 6599: "2.5e-10"}, _edit_config=_numbers_in_rate_modifier), ["dense"], "plain"),
    # modifier terms that name a species twice (quadratic terms) and several terms per species; duplicated list options
    "repeated-dependencies": (lambda: dict(example_request("minimal"), rate_modifier={4894: "1.5e-10*zeta"},
                                           ode_modifier={"C2": {"factors": ["zeta", "-0.5*zeta"], "reactants": [["C", "C"], ["C2", "C2", "H"]]}, "C": {"factors": ["-2.0*zeta"], "reactants": [["C", "C"]]}}), ["dense"], "plain"),
    "ice-binding-yield": (lambda: base_request(files=["ice.naunet"], formats=["naunet"], elements=["H", "C", "O"], pseudo_elements=["CR"], binding={"#CO": 1234.5, "#H": 500.0}, yields={"#CO": 0.002}, grain_model="hh93", srcdir=None, _ice=True), ["dense"], "plain"),
    "ice-binding-yield-spaced": (lambda: base_request(files=["ice.naunet"], formats=["naunet"], elements=["H", "C", "O"], pseudo_elements=["CR"], binding={"#CO": 1234.5, "#H": 500.0}, yields={"#CO": 0.002}, grain_model="hh93", srcdir=None, _ice=True), ["dense"], "spaced"),
    "replacement+yield-only": (lambda: base_request(files=["up.ucl"], formats=["uclchem"], elements=["E", "H", "HE", "C", "O", "MG", "SI"], pseudo_elements=["CR", "CRP", "PHOTON", "CRPHOT"],
                                                 replacement={"E": "e", "HE": "He", "MG": "Mg", "SI": "Si"}, yields={"#MG": 0.03, "#SIO": 0.002, "#CO": 0.0027}, binding={"#CO": 855.0}, grain_model="rr07x", _ucl=True), ["dense"], "plain"),
    # self-shielding tables, with blanks around the key : value separator (`naunet example` itself writes 'CO: VB88Table')
    "shielding-spaced": (lambda: base_request(files=["ice.naunet"], formats=["naunet"], elements=["H", "C", "O"], pseudo_elements=["CR"], grain_model="hh93", shielding={"CO": "VB88Table", "H2": "L96Table"}, _ice=True), ["dense"], "spaced"),
    "shielding-plain": (lambda: base_request(files=["ice.naunet"], formats=["naunet"], elements=["H", "C", "O"], pseudo_elements=["CR"], grain_model="hh93", shielding={"CO": "V09Table"}, _ice=True), ["dense"], "plain"),
    # a grain symbol other than the default; the grains are extra species (the file readers know the default symbol only)
    "grain-symbol": (lambda: base_request(files=["dust.naunet"], formats=["naunet"], elements=["e", "H"], pseudo_elements=["CR"], grain_symbol="DUST", allowed=["H", "H2", "H+", "e-", "DUST0", "DUST-"], extra=["DUST0", "DUST-"],
                                          _files={"dust.naunet": "1    ,           H,           H,            ,          H2,            ,            ,            ,            , 1.000e-10, 0.000e+00, 0.000e+00,    -1.00,    -1.00, 100, unknown\n2    ,          H+,          e-,            ,           H,            ,            ,            ,            , 1.000e-10, 0.000e+00, 0.000e+00,    -1.00,    -1.00, 100, unknown\n3    ,           H,          CR,            ,          H+,          e-,            ,            ,            , 1.000e-10, 0.000e+00, 0.000e+00,    -1.00,    -1.00, 100, unknown\n"}), ["dense"], "plain"),
    "symbols": (lambda: base_request(files=["ice.naunet"], formats=["naunet"], elements=["H", "C", "O"], pseudo_elements=["CR"], grain_model="hh93", bulk_prefix="%", _ice=True), ["dense"], "plain"),
}
THOROUGH = {
    "example-deuterium": (lambda: example_request("deuterium"), ["dense"], "plain"),
    "example-cloud": (lambda: example_request("cloud"), ["dense"], "plain"),
}

UCL_UPPER_FILE = "\n".join([
    "H,H,NAN,H2,NAN,NAN,NAN,1e-17,0.0,0.0,0,0", "HE,CRP,NAN,HE+,E-,NAN,NAN,0.5,0.0,0.0,10,41000", "MG,FREEZE,NAN,#MG,NAN,NAN,NAN,1.0,0.0,0.0,0.0,10000.0", "SIO,FREEZE,NAN,#SIO,NAN,NAN,NAN,1.0,0.0,0.0,0.0,10000.0",
    "CO,FREEZE,NAN,#CO,NAN,NAN,NAN,1.0,0.0,0.0,0.0,10000.0", "#MG,DEUVCR,NAN,MG,NAN,NAN,NAN,1.0,0.0,5300.0,0.0,10000.0", "#SIO,DEUVCR,NAN,SIO,NAN,NAN,NAN,1.0,0.0,3500.0,0.0,10000.0", "#CO,DEUVCR,NAN,CO,NAN,NAN,NAN,1.0,0.0,855.0,0.0,10000.0",
    "#MG,THERM,NAN,MG,NAN,NAN,NAN,1.0,0.0,5300.0,0.0,10000.0", "#CO,DESCR,NAN,CO,NAN,NAN,NAN,1.0,0.0,855.0,0.0,10000.0",
]) + "\n"

ICE_FILE = "\n".join([
    "1    ,           H,          CO,            ,         HCO,            ,            ,            ,            , 1.000e-10, 0.000e+00, 0.000e+00,    -1.00,    -1.00, 100, unknown",
    "2    ,          CO,            ,            ,         #CO,            ,            ,            ,            , 1.000e+00, 0.000e+00, 0.000e+00,    -1.00,    -1.00, 200, unknown",
    "3    ,         #CO,            ,            ,          CO,            ,            ,            ,            , 1.000e+00, 0.000e+00, 0.000e+00,    -1.00,    -1.00, 201, unknown",
    "4    ,           H,            ,            ,          #H,            ,            ,            ,            , 1.000e+00, 0.000e+00, 0.000e+00,    -1.00,    -1.00, 200, unknown",
    "5    ,          #H,            ,            ,           H,            ,            ,            ,            , 1.000e+00, 0.000e+00, 0.000e+00,    -1.00,    -1.00, 201, unknown",
]) + "\n"


def analyse(name, tier):
    res = {"case": name, "ok": [], "unknown": [], "viol": [], "errors": [], "notes": [], "samples": [], "solver_s": 0.0, "programs": 0, "functions": []}
    try:
        _analyse(name, tier, res)
    except Exception as e:
        res["errors"].append(f"{type(e).__name__}: {e}\n{traceback.format_exc()[-1500:]}")
    return res


def _toml_check(req, text, res, name):
    """the written configuration must describe what was requested"""
    import tomlkit

    c = tomlkit.loads(text)["chemistry"]
    want = {
        "elements": (c["element"]["elements"], req["elements"]), "pseudo_elements": (c["element"]["pseudo_elements"], req["pseudo_elements"]),
        "replacement": (dict(c["element"]["replacement"]), req["replacement"]), "allowed": (c["species"]["allowed"], req["allowed"]), "required": (c["species"]["required"], req["extra"]),
        "binding_energy": (dict(c["species"]["binding_energy"]), req["binding"]), "photon_yield": (dict(c["species"]["photon_yield"]), req["yields"]),
        "files": (c["network"]["files"], req["files"]), "formats": (c["network"]["formats"], req["formats"]), "heating": (c["thermal"]["heating"], req["heating"]), "cooling": (c["thermal"]["cooling"], req["cooling"]),
        "shielding": (dict(c["shielding"]), req["shielding"]), "grain_model": (c["grain"]["model"], req["grain_model"]), "grain_symbol": (c["symbol"]["grain"], req["grain_symbol"]),
        "surface_prefix": (c["symbol"]["surface"], req["surface_prefix"]), "bulk_prefix": (c["symbol"]["bulk"], req["bulk_prefix"]),
        "rate_modifier": ({str(k): str(v).strip() for k, v in dict(c["rate_modifier"]).items()}, {str(k): str(v).strip() for k, v in req["rate_modifier"].items()}),
    }
    for key, (got, exp) in want.items():
        got = list(got) if isinstance(got, list) else got
        nm = f"{name}:config:{key}"
        if got == exp:
            res["ok"].append(nm)
        else:
            res["viol"].append({"key": nm, "what": f"naunet_config.toml records {key} = {got!r} but {exp!r} was requested", "replay": {"case": name, "key": key, "got": repr(got), "requested": repr(exp)}})


def _analyse(name, tier, res):
    builder, kinds, style = {**CASES, **THOROUGH}[name]
    req = builder()
    ice = req.pop("_ice", False)
    ucl = req.pop("_ucl", False)
    lit = req.pop("_files", None)
    edit = req.pop("_edit_config", None)
    workfiles = []
    if lit:
        workfiles += [{"name": n, "content": c} for n, c in lit.items()]
    elif ucl:
        workfiles.append({"name": "up.ucl", "content": UCL_UPPER_FILE})
    elif ice:
        workfiles.append({"name": "ice.naunet", "content": ICE_FILE})
    elif req["srcdir"] and req["files"]:
        for f in req["files"]:
            workfiles.append({"name": f, "content": open(os.path.join(req["srcdir"], f)).read()})
    for kind in kinds:
        tgt = proj.TARGETS[kind]
        tdir = tgt["dir"]
        tag = f"{name}/{tdir}"
        cli = proj.render_cli(f"cli-{name}", workfiles, to_cli(req, tgt["solver"], tgt["device"], tgt["method"], style), tdir, edit_config=edit)
        api = proj.render(f"api-{name}", to_api_spec(req, tgt, workfiles))
        if not api.ok or not api.target_ok(tdir):
            res["notes"].append(f"{tag}: API rendering refused: {api.meta.get('error') or api.meta['targets'].get(tdir)}")
            if cli.ok:
                res["viol"].append({"key": f"{tag}:cli-accepts-what-api-refuses", "what": "the command line renders a description the API refuses", "replay": {"case": name}})
            continue
        if not cli.ok:
            res["viol"].append({"key": f"{tag}:cli-refused", "what": f"init/render refuse a description the API renders: {cli.meta.get('error', '')[-300:]}", "replay": {"case": name, "args": to_cli(req, tgt['solver'], tgt['device'], tgt['method'], style)}})
            continue
        res["programs"] += 2
        if kind == kinds[0]:
            _toml_check(req, cli.meta["config_text"], res, name)
        ma, mc = api.macros(tdir), cli.macros(tdir)
        if ma != mc:
            diff = {k: (ma.get(k), mc.get(k)) for k in set(ma) | set(mc) if ma.get(k) != mc.get(k)}
            res["viol"].append({"key": f"{tag}:macros", "what": f"macro tables differ between API and command-line rendering: {dict(list(diff.items())[:6])}", "replay": {"case": name, "diff": {k: list(v) for k, v in diff.items()}}})
            continue
        res["ok"].append(f"{tag}:macros")
        try:
            s = z3.Solver()
            s.set("timeout", 60_000)
            pairs = []
            ra = ode.run_rates(api, tdir, lifted=ode.load(api, tdir, "rates", extra=("naunet_constants.cpp",), lift=True))
            rc = ode.run_rates(cli, tdir, lifted=ode.load(cli, tdir, "rates", extra=("naunet_constants.cpp",), lift=True))
            fa, fc = ode.run_fex(api, tdir), ode.run_fex(cli, tdir)
            if any(r.compile_errors for r in (ra, rc, fa, fc)):
                res["unknown"].append((tag, "a translation unit does not compile (C10's subject)"))
                continue
            res["functions"] += [f"{tdir}:EvalRates", f"{tdir}:Fex"]
            s.add(inv_axioms())
            t0 = time.time()
            for what, xa, xc in (("k", ra.kout, rc.kout), ("ydot", fa.ydot, fc.ydot)):
                bad = 0
                for i, (a, c) in enumerate(zip(xa, xc)):
                    if a is None or c is None:
                        continue
                    r_ = str(s.check(R(a) != R(c)))
                    XC.sample(s, [R(a) != R(c)], r_, "api-vs-cli term")
                    if r_ == "unsat":
                        res["ok"].append(f"{tag}:{what}[{i}]")
                    elif r_ == "sat" and bad < 3:
                        bad += 1
                        res["viol"].append({"key": f"{tag}:{what}[{i}]", "what": f"{what}[{i}] differs between API and command-line rendering: {z3.simplify(R(a))} vs {z3.simplify(R(c))}"[:400], "replay": {"case": name, "config": cli.meta["config_text"][-1500:]}})
                    elif r_ != "sat":
                        res["unknown"].append((f"{tag}:{what}[{i}]", r_))
            res["solver_s"] += time.time() - t0
            if len(res["samples"]) < 1:
                res["samples"].append({"case": tag, "compared": {"k": len(ra.kout), "ydot": len(fa.ydot)}, "verdict": "all equivalent (unsat)"})
        except Inconclusive as e:
            res["unknown"].append((tag, f"encoder: {e}"))


def analyse_export(tkey, tier):
    """export path: Network.export(solver, method) -> naunet_config.toml -> `naunet render` in the exported directory:
    the recorded solver selection is the requested one and the re-rendered right-hand side / Jacobian layout
    are those of the direct rendering with that back-end"""
    res = {"case": f"export:{tkey}", "ok": [], "unknown": [], "viol": [], "errors": [], "notes": [], "samples": [], "solver_s": 0.0, "programs": 0, "functions": []}
    try:
        import tomlkit

        over = tkey.endswith("+over")  # history: the project directory already holds an export made with another solver selection
        tkey = tkey.split("+")[0]
        tgt = dict(proj.TARGETS[tkey])
        tdir = tgt["dir"]
        req = example_request("minimal")
        base = {"network": {"filelist": [os.path.join(req["srcdir"], f) for f in req["files"]], "fileformats": req["formats"], "elements": req["elements"], "pseudo_elements": req["pseudo_elements"],
                            "ode_modifier": {"H": {"factors": ["2.0*zeta"], "reactants": [["C", "CH"]]}}}}
        ops = [{"op": "export", "name": tdir, "prefix": "exp", "solver": tgt["solver"], "method": tgt["method"]}]
        if over:
            other = {"dense": ("cvode", "sparse"), "sparse": ("odeint", "rosenbrock4"), "odeint": ("cvode", "dense")}[tkey]
            ops.insert(0, {"op": "export", "name": tdir, "prefix": "exp", "solver": other[0], "method": other[1]})
            tkey += "+over"
        direct = proj.render(f"c20-export-{tkey.replace('+', '-')}", dict(base, targets=[tgt], ops=ops))
        if not direct.ok or not direct.target_ok(tdir):
            res["unknown"].append((res["case"], f"direct rendering refused: {direct.meta.get('error')}"))
            return res
        res["programs"] += 1
        cfgp = os.path.join(direct.dir, "exp", tdir, "naunet_config.toml")
        ode_ = tomlkit.loads(open(cfgp).read())["ODEsolver"]
        for key in ("solver", "method", "device"):
            nm = f"export:{tkey}:config:{key}"
            want = tgt.get(key, "cpu")
            if str(ode_.get(key)) == str(want):
                res["ok"].append(nm)
            else:
                res["viol"].append({"key": nm, "what": f"Network.export(solver={tgt['solver']!r}, method={tgt['method']!r}) writes [ODEsolver] {key} = {ode_.get(key)!r} into naunet_config.toml: `naunet render` in the exported project builds another back-end than the one exported",
                                    "replay": {"target": tkey, "config": dict(ode_), "requested": {k: tgt.get(k) for k in ("solver", "method", "device")}}})
        exp = proj.rerender_exported(direct, "exp", tdir)
        if not exp.ok:
            res["notes"].append(f"re-render refused: {exp.meta.get('error', '')[-200:]}")
            return res
        res["programs"] += 1
        # the re-rendered project must be a project of the same back-end: same macro table, and the symbolic executor
        # finds the back-end's entry points with equal right-hand sides
        try:
            if exp.macros(tdir) != direct.macros(tdir):
                res["viol"].append({"key": f"export:{tkey}:macros", "what": "macro table of the re-rendered export differs from the direct rendering", "replay": {"target": tkey}})
            else:
                fa, fb = ode.run_fex(direct, tdir), ode.run_fex(exp, tdir)
                ja, jb = ode.run_jac(direct, tdir), ode.run_jac(exp, tdir)
                if fb.compile_errors or jb.compile_errors or fa.compile_errors or ja.compile_errors:
                    res["unknown"].append((f"export:{tkey}:compile", "sources do not lower"))
                else:
                    s = z3.Solver()
                    s.add(inv_axioms())
                    res["functions"] += [f"{tdir}:Fex", f"{tdir}:Jac"]
                    for i, (a, b) in enumerate(zip(fa.ydot, fb.ydot)):
                        if a is None or b is None:
                            continue
                        r_ = str(s.check(R(a) != R(b)))
                        (res["ok"].append(f"export:{tkey}:ydot[{i}]") if r_ == "unsat" else res["viol"].append({"key": f"export:{tkey}:ydot[{i}]", "what": f"right-hand side {i} of the re-rendered export differs from the direct rendering", "replay": {"target": tkey}}) if r_ == "sat" else res["unknown"].append((f"export:{tkey}:ydot[{i}]", r_)))
        except Inconclusive as e:
            res["viol"].append({"key": f"export:{tkey}:entry-points", "what": f"the re-rendered export is not a {tkey} project: {str(e)[:200]}", "replay": {"target": tkey, "config": dict(ode_)}})
    except Exception as e:
        res["errors"].append(f"{type(e).__name__}: {e}\n{traceback.format_exc()[-1500:]}")
    return res


TWO_INIT = r"""
import os, sys
from naunet.console import main
for d, args in zip(sys.argv[1:3], (%r, %r)):
    os.chdir(d)
    sys.argv = ["naunet", "init", "--no-interaction", *args]
    try:
        rc = main()
    except SystemExit as e:
        rc = e.code
    if rc not in (0, None):
        sys.exit(10 + int(rc))
"""


def analyse_two_in_one_process(tier):
    """two projects initialised by one interpreter (a script or test session driving the commands): the second
    configuration describes the second request only"""
    import subprocess
    import tempfile

    from ..paths import child_env

    res = {"case": "two-init-one-process", "ok": [], "unknown": [], "viol": [], "errors": [], "notes": [], "samples": [], "solver_s": 0.0, "programs": 0, "functions": []}
    try:
        req_a = dict(example_request("minimal"), replacement={"E": "e"}, binding={"#CO": 1234.5}, yields={"#CO": 0.002}, shielding={"CO": "VB88Table"}, rate_modifier={4894: "1.5e-10*zeta"},
                     ode_modifier={"H": {"factors": ["-2.0*zeta"], "reactants": [["H"]]}})
        req_b = example_request("minimal")
        tgt = proj.TARGETS["dense"]
        with tempfile.TemporaryDirectory(prefix="naunet-verif-c20-") as tmp:
            da, db = os.path.join(tmp, "a"), os.path.join(tmp, "b")
            for d, rq in ((da, req_a), (db, req_b)):
                os.makedirs(d)
                for f in rq["files"]:
                    with open(os.path.join(d, f), "w") as fh:
                        fh.write(open(os.path.join(rq["srcdir"], f)).read())
            env = dict(os.environ, TQDM_DISABLE="1", PYTHONHASHSEED="0")
            child_env(env)
            code = TWO_INIT % (to_cli(req_a, tgt["solver"], tgt["device"], tgt["method"]), to_cli(req_b, tgt["solver"], tgt["device"], tgt["method"]))
            r = subprocess.run([proj.PY, "-c", code, da, db], capture_output=True, text=True, env=env, timeout=600)
            cfg = os.path.join(db, "naunet_config.toml")
            if r.returncode != 0 or not os.path.exists(cfg):
                res["unknown"].append((res["case"], f"init of the two projects failed ({r.returncode}): {(r.stderr or r.stdout)[-200:]}"))
                return res
            res["programs"] += 2
            _toml_check(req_b, open(cfg).read(), res, "two-init-one-process:second")
            _toml_check(req_a, open(os.path.join(da, "naunet_config.toml")).read(), res, "two-init-one-process:first")
    except Exception as e:
        res["errors"].append(f"{type(e).__name__}: {e}\n{traceback.format_exc()[-1500:]}")
    return res


def analyse_example_command(tier):
    """`naunet example --dry`: the option strings the example command hands to `naunet init` carry exactly the values of
    the bundled example module (binding energies, yields, shielding tables, element lists) -- ground comparison"""
    import shlex
    import subprocess
    import tempfile

    from ..paths import child_env

    res = {"case": "example-command", "ok": [], "unknown": [], "viol": [], "errors": [], "notes": [], "samples": [], "solver_s": 0.0, "programs": 0, "functions": ["ExampleCommand.handle (option strings)"]}
    order = ["empty"] * 4 + ["minimal"] * 4 + ["primordial"] * 4 + ["deuterium"] * 4 + ["cloud"] * 3 + ["ism"] * 3
    for sel in (4, 8, 12, 16, 19):
        name = order[sel]
        work = tempfile.mkdtemp(prefix="naunet-verif-exdry-")
        try:
            env = dict(os.environ, TQDM_DISABLE="1")
            child_env(env)
            r = subprocess.run([proj.PY, "-c", "import sys; from naunet.console import main; sys.exit(main())", "example", "--dry", f"--select={sel}"], capture_output=True, text=True, cwd=work, env=env, timeout=300)
            line = next((l for l in r.stdout.splitlines() if l.startswith("naunet init")), None)
            if line is None:
                res["unknown"].append((f"example:{name}", f"no init command printed: {(r.stderr or r.stdout)[-200:]}"))
                continue
            opts = {}
            for tok in shlex.split(line)[2:]:
                if tok.startswith("--") and "=" in tok:
                    k, v = tok[2:].split("=", 1)
                    opts.setdefault(k, []).append(v)
            req = example_request(name)
            kv = lambda txt, sep: {a.strip(): b.strip() for a, b in (x.split(sep, 1) for x in txt.split(",") if x.strip())}
            got_b = {k: float(v) for k, v in kv(opts.get("binding", [""])[0], "=").items()}
            got_y = {k: float(v) for k, v in kv(opts.get("yield", [""])[0], "=").items()}
            got_s = kv(opts.get("shielding", [""])[0], ":")
            checks = [("binding", got_b, {k: float(v) for k, v in req["binding"].items()}), ("yield", got_y, {k: float(v) for k, v in req["yields"].items()}), ("shielding", got_s, dict(req["shielding"])),
                      ("elements", [x.strip() for x in opts.get("elements", [""])[0].split(",") if x.strip()], list(req["elements"])),
                      ("pseudo-elements", [x.strip() for x in opts.get("pseudo-elements", [""])[0].split(",") if x.strip()], list(req["pseudo_elements"]))]
            for what, got, want in checks:
                nm = f"example:{name}:{what}"
                if got == want:
                    res["ok"].append(nm)
                else:
                    diff = {k: (want.get(k), got.get(k)) for k in set(want) | set(got) if want.get(k) != got.get(k)} if isinstance(want, dict) else {"want": want, "got": got}
                    res["viol"].append({"key": nm, "what": f"`naunet example` hands `naunet init` a {what} option that differs from the example's own table: {dict(list(diff.items())[:4])}", "replay": {"select": sel, "example": name, "difference": {str(k): str(v) for k, v in list(diff.items())[:20]}, "command": line[:3000]}})
        except Exception as e:
            res["errors"].append(f"example:{name}: {type(e).__name__}: {e}")
        finally:
            import shutil
            shutil.rmtree(work, ignore_errors=True)
    return res


def _work_inner(a):
    if a[0] == "example-command":
        return analyse_example_command(a[1])
    if a[0] == "two-init":
        return analyse_two_in_one_process(a[1])
    if a[0].startswith("export:"):
        return analyse_export(a[0].split(":", 1)[1], a[1])
    return analyse(*a)


def _work(a):
    tier = a[-1] if isinstance(a[-1], str) and a[-1] in ("quick", "thorough") else next((x for x in a if x in ("quick", "thorough")), "quick")
    XC.__init__(every=15 if tier == "thorough" else 40, first=1, cap=10 if tier == "thorough" else 3)
    r = _work_inner(a)
    if isinstance(r, dict):
        r["xcheck"] = XC.summary()
    return r


def main(pid, tier):
    chk = Check("C20", tier)
    proj.ensure_venv()
    names = list(CASES) + (list(THOROUGH) if tier == "thorough" else [])
    ctx = mp.get_context("fork")
    with cf.ProcessPoolExecutor(max_workers=10, mp_context=ctx) as ex:
        results = list(ex.map(_work, [(n, tier) for n in names] + [(f"export:{t}", tier) for t in ("dense", "sparse", "odeint", "dense+over", "sparse+over", "odeint+over")] + [("two-init", tier), ("example-command", tier)]))
    for r in results:
        chk.programs += r["programs"]
        chk.solver_s += r["solver_s"]
        chk.functions.update(r["functions"])
        chk.xc.merge(r.get("xcheck"))
        for n in r["ok"]:
            chk.ok(n)
            chk.nontrivial.add(n)
        for n, w in r["unknown"]:
            chk.unknown(n, w)
        for v in r["viol"]:
            chk.violation(v["key"], v["what"], v["replay"])
        for e in r["errors"]:
            chk.harness_error(f"{r['case']}: {e}")
        chk.notes += [f"{r['case']}: {n}" for n in r["notes"]]
        for s_ in r["samples"]:
            chk.sample(s_)
    # CrossHair on the option parser of `naunet init` with symbolic option strings
    from . import chx_props

    chx_props.main("C20", tier, chk=chk, plan_key="C20")
    chk.bounds = {"option_parser (CrossHair, symbolic strings)": "every string of <=4 characters over {a, B, ',', ' '} for list options (elements, allowed species, cooling); <=4 over {a,B,':',',',' '} for the replacement table; <=3-character keys over {a,B,' ','#'} for the binding table; InitCommand.handle on a duck-typed self with BaseConfiguration replaced by a recorder",
                  "cases": names, "option_styles": ["plain 'a,b'", "spaced ' a , b ' / ' k = v '"], "compared": "macro tables (ground), every rate coefficient and every right-hand side (SMT, all inputs), TOML fields (ground)"}
    chk.assumptions = ["interactive prompts are not exercised (--no-interaction, every option given)", "the `ism` example needs an external file and is out of scope; `example` command itself fails at baseline (always_fail test) so examples are driven through `init`",
                       "real arithmetic; libm uninterpreted"]
    chk.extra["repo_fingerprint"] = proj.repo_fingerprint()
    return chk.finish(rule="one obligation = one SMT equivalence (rate / derivative term, all inputs) or one ground comparison (macro table, TOML field) per case and back-end")
