"""C14 -- network contents stay consistent under any history of edits.
CrossHair harnesses (h_c14s: symbolic stub species; h_c14: solver-selected real
reactions and operation sequences) + the network-editing command line."""
from __future__ import annotations

from ..paths import child_env
import os
import subprocess
import tempfile

from .. import proj
from . import chx_props

POOL = [
    (["H", "H"], ["H2"], 100), (["H2", "CR"], ["H", "H"], 101), (["H", "C"], ["CH"], 100), (["CH", "O"], ["CO", "H"], 100), (["CO"], ["C", "O"], 100), (["H", "H"], ["H2"], 100), (["e-", "H+"], ["H"], 100),
    # same species as entry 3 on another temperature window, and as entry 4 with another type: not duplicates
    (["CH", "O"], ["CO", "H"], 100, 300.0, 800.0), (["CO"], ["C", "O"], 102),
    # the same species on both sides as entry 0 resp. each other, with other multiplicities: not duplicates
    (["H", "H", "H"], ["H2", "H"], 100), (["H", "H"], ["H2", "H"], 100), (["H", "H", "H"], ["H2", "H"], 100),
]
WINDOW = lambda i: (POOL[i][3], POOL[i][4]) if len(POOL[i]) > 3 else (-1.0, -1.0)
LAUNCH = "import sys; from naunet.console import main; sys.exit(main())"


def _line(i, idx):
    r, p, t = POOL[i][:3]
    lo, hi = WINDOW(i)
    rs = [f"{x:>12}" for x in r + [""] * (3 - len(r))]
    ps = [f"{x:>12}" for x in p + [""] * (5 - len(p))]
    return ",".join([f"{idx:<5}", *rs, *ps, f"{1.0 + i:10.3e}", f"{0:10.3e}", f"{0:10.3e}", f"{lo:9.2f}", f"{hi:9.2f}", f"{t:>4}", f"{'unknown':>8}"])


def _read(path):
    out = []
    for l in open(path):
        if not l.strip():
            continue
        f = [x.strip() for x in l.split(",")]
        out.append((sorted(x for x in f[1:4] if x and x != "CR"), sorted(x for x in f[4:9] if x), int(f[-2]), float(f[-4]), float(f[-3])))
    return out


def cli_cases():
    base = list(range(len(POOL)))
    key = lambda i: (sorted(x for x in POOL[i][0] if x != "CR"), sorted(POOL[i][1]), POOL[i][2], *WINDOW(i))
    spec = lambda i: set(x for x in POOL[i][0] + POOL[i][1] if x != "CR")
    cases = []
    cases.append(("plain", [], [key(i) for i in base]))
    dedup = []
    for i in base:
        if key(i) not in dedup:
            dedup.append(key(i))
    cases.append(("remove-duplicate", ["--remove-duplicate"], dedup))
    cases.append(("remove-species", ["--remove-species", "CH, e-"], [key(i) for i in base if not ({"CH", "e-"} & spec(i))]))
    allowed = {"H", "H2", "C", "CH"}
    cases.append(("reduce-by-species", ["--reduce-by-species", "H,H2, C ,CH"], [key(i) for i in base if spec(i) <= allowed]))
    cases.append(("reduce+dedup", ["--reduce-by-species", "H,H2", "--remove-duplicate"], [k for i, k in ((i, key(i)) for i in base) if spec(i) <= {"H", "H2"} and k not in [key(j) for j in base[:i]]]))
    # appended grain processes: the same edits applied one after another through the API give base + freeze-out of
    # every neutral gas species + desorption of every surface species *then* present (appended in set order)
    kept = [key(i) for i in base]
    neutral = sorted(x for x in set().union(*[spec(i) for i in base]) if not x.endswith(("+", "-")))
    freeze = [([x], ["#" + x], 200, -1.0, -1.0) for x in neutral]
    des = lambda code: [(["#" + x], [x], code, -1.0, -1.0) for x in neutral]
    cases.append(("append-depletion", ["--append-depletion"], (kept, freeze)))
    cases.append(("append-thermal-desorption-no-ice", ["--append-thermal-desorption"], kept))
    cases.append(("append-depletion+thermal", ["--append-depletion", "--append-thermal-desorption"], (kept, freeze + des(201))))
    cases.append(("append-depletion+photon+cosmic-ray", ["--append-depletion", "--append-photon-desorption", "--append-cosmic-ray-desorption"], (kept, freeze + des(203) + des(202))))
    cases.append(("dedup+depletion+all-desorption", ["--remove-duplicate", "--append-depletion", "--append-thermal-desorption", "--append-photon-desorption", "--append-cosmic-ray-desorption"], (dedup, freeze + des(201) + des(203) + des(202))))
    # a reduction by species combined with appended grain processes in one invocation: the reduction selects among the
    # reactions of the input file, the appended processes then refer to the species that are left
    red = [key(i) for i in base if spec(i) <= allowed]
    rneutral = sorted(x for x in set().union(*[spec(i) for i in base if spec(i) <= allowed]) if not x.endswith(("+", "-")))
    rfreeze = [([x], ["#" + x], 200, -1.0, -1.0) for x in rneutral]
    rdes = lambda code: [(["#" + x], [x], code, -1.0, -1.0) for x in rneutral]
    cases.append(("reduce+depletion", ["--reduce-by-species", "H,H2, C ,CH", "--append-depletion"], (red, rfreeze)))
    cases.append(("reduce+depletion+thermal", ["--reduce-by-species", "H,H2, C ,CH", "--append-depletion", "--append-thermal-desorption"], (red, rfreeze + rdes(201))))
    # removal by species combined with removal of duplicates in one invocation (reactions in front of the repeated
    # entries disappear first: positions found before an edit do not survive it)
    for nm, rm in (("C", {"C"}), ("H2, e-", {"H2", "e-"}), ("CO,CH", {"CO", "CH"})):
        exp = []
        for i in base:
            if not (rm & spec(i)) and key(i) not in exp:
                exp.append(key(i))
        cases.append((f"remove-species[{nm}]+dedup", ["--remove-species", nm, "--remove-duplicate"], exp))
        cases.append((f"dedup+remove-species[{nm}]", ["--remove-duplicate", "--remove-species", nm], exp))
    return cases


def run_cli(chk):
    env = dict(os.environ, TQDM_DISABLE="1", PYTHONHASHSEED="0")
    child_env(env)
    for name, args, expected in cli_cases():
        with tempfile.TemporaryDirectory(prefix="naunet-verif-c14-") as tmp:
            r = subprocess.run([proj.PY, "-c", LAUNCH, "new", "p"], capture_output=True, text=True, cwd=tmp, env=env)
            pdir = os.path.join(tmp, "p")
            with open(os.path.join(pdir, "in.naunet"), "w") as fh:
                fh.write("\n".join(_line(i, k + 1) for k, i in enumerate(range(len(POOL)))) + "\n")
            r = subprocess.run([proj.PY, "-c", LAUNCH, "extend", "--no-interaction", *args, "in.naunet", "out.naunet"], capture_output=True, text=True, cwd=pdir, env=env, timeout=300)
            nm = f"cli-extend:{name}"
            chk.functions.add("ExtendCommand.handle (real command line)")
            if r.returncode != 0 or not os.path.exists(os.path.join(pdir, "out.naunet")):
                err = (r.stderr or r.stdout).strip().splitlines()[-1:] or [""]
                chk.violation(nm, f"`naunet extend {' '.join(args)}` aborts instead of editing the network: {err[0][:200]}", {"args": args, "stderr": (r.stderr or r.stdout)[-800:], "cmd": f"naunet new p && cd p && naunet extend {' '.join(args)} in.naunet out.naunet"})
                continue
            got = _read(os.path.join(pdir, "out.naunet"))
            chk.replays_done += 1
            if isinstance(expected, tuple):
                # (ordered prefix, appended multiset)
                pre, app = expected
                same = got[: len(pre)] == pre and sorted(got[len(pre):]) == sorted(app)
                expected = pre + sorted(app)
                got = got[: len(pre)] + sorted(got[len(pre):])
            else:
                same = got == expected
            if same:
                chk.ok(nm)
                chk.nontrivial.add(nm)
            else:
                chk.violation(nm, f"`naunet extend {' '.join(args)}` kept {len(got)} reactions, expected {len(expected)}: first difference {next(((g, e) for g, e in zip(got + [None], expected + [None]) if g != e), None)}", {"args": args, "got": got, "expected": expected})


def run(pid, tier):
    chk = chx_props.main("C14", tier)
    run_cli(chk)
    m = chx_props.META["C14"]
    chk.bounds = m["bounds"]
    chk.assumptions = m["assume"]
    return chk.finish(rule=m["rule"])
