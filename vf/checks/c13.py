"""C13 -- rate and ODE modifiers change exactly what the user targeted (differential E1)."""
from __future__ import annotations

import concurrent.futures as cf
import multiprocessing as mp
import time
import traceback
from fractions import Fraction

import z3

from .. import cexpr, encoders, harness as H, ode, proj
from ..corpus import rx
from ..irsym import Inconclusive, R, inv_axioms, is_sym
from ..report import Check

KIDA_LINES = [
    {"reactants": ["C", "CH"], "products": ["C2", "H"], "a": "2.4e-10", "b": "0.0", "c": "0.0", "tmin": "10", "tmax": "300", "idx": 11, "code": 3},
    {"reactants": ["H", "C2"], "products": ["C", "CH"], "a": "4.67e-10", "b": "0.5", "c": "3.04e+04", "tmin": "10", "tmax": "800", "idx": 12, "code": 3},
    {"reactants": ["CH", "Photon"], "products": ["C", "H"], "a": "9.2e-10", "b": "0.0", "c": "1.7", "tmin": "-9999", "tmax": "9999", "idx": 13, "code": 2},
    {"reactants": ["C", "H"], "products": ["CH"], "a": "1.0e-17", "b": "0.0", "c": "0.0", "tmin": "10", "tmax": "100", "idx": 14, "code": 3},
    {"reactants": ["C", "H"], "products": ["CH"], "a": "2.0e-17", "b": "0.0", "c": "0.0", "tmin": "100", "tmax": "1000", "idx": 14, "code": 3},  # shares index 14
    {"reactants": ["C2", "CR"], "products": ["C", "C"], "a": "1.3e-17", "b": "0.0", "c": "0.0", "tmin": "-9999", "tmax": "9999", "idx": 15, "code": 1},
]
KIDA_TEXT = "\n".join(encoders.kida(r) for r in KIDA_LINES) + "\n"
# the same network numbered 1, 2, 3, 4, 4, 5: every file index is also the *position* of another reaction
KIDA_SMALL_TEXT = "\n".join(encoders.kida(dict(r, idx=r["idx"] - 10)) for r in KIDA_LINES) + "\n"
SMALL_INDEX_SETS = {"small-index-zero", "small-index"}

RATE_SETS = {
    "present": {11: "1.5e-10*zeta"},
    "absent": {99999: "1.0"},
    "shared": {14: "Av*2.0"},
    "negative": {13: "-3.0e-9"},
    "compound": {12: "(zeta+1.0e-17)/Av", 15: "2.5*nH"},
    "index0": {0: "7.0"},
    # written by hand into naunet_config.toml as TOML numbers (0.0 = switch the reaction off)
    "toml-numbers": {11: "0.0", 15: "2.5e-10", 13: "0"},
    # file indices that are small numbers (1-based numbering): a key names the reaction carrying that index, never
    # the reaction at that position; zero-valued modifiers switch exactly their target off
    "small-index-zero": {2: "0.0", 4: "0"},
    "small-index": {3: "2.0*Av", 1: "zeta"},
}
ODE_SETS = {
    "dep1": {"H": {"factors": ["2.0"], "reactants": [["C"]]}},
    "dep2-signed": {"CH": {"factors": ["-2.0*Av"], "reactants": [["H", "C"]]}},
    "dep3": {"C2": {"factors": ["zeta/2.0"], "reactants": [["H", "C", "CH"]]}},
    "two-terms": {"C": {"factors": ["1.5", "-0.25"], "reactants": [["H"], ["C", "C2"]]}},
    "repeated": {"H": {"factors": ["3.0"], "reactants": [["C", "C"]]}},
    # factors that are sums: the generator must keep them as one parenthesised unit
    "sum-factor": {"H": {"factors": ["-zeta + Av"], "reactants": [["C"]]}},
    "diff-factors": {"CH": {"factors": ["Av - 0.5*zeta", "-2.0*Av - zeta/3.0"], "reactants": [["H"], ["C", "C2"]]}},
    "nodep-sum": {"C2": {"factors": ["-zeta + 2.0*Av"], "reactants": [[]]}},
    # several target species in one modifier set (each term must reach its own species only)
    "two-targets": {"C2": {"factors": ["zeta"], "reactants": [["C", "C"]]}, "H": {"factors": ["-0.5*Av"], "reactants": [["CH"]]}},
    "three-targets": {"C": {"factors": ["1.5", "zeta"], "reactants": [["H"], ["C2"]]}, "CH": {"factors": ["-2.0"], "reactants": [["H", "C"]]}, "H": {"factors": ["Av"], "reactants": [["C2", "C2"]]}},
}


from ..xcheck import XCheck

XC = XCheck()

def _toml_numbers(text):
    """the rate-modifier values of the configuration file rewritten as TOML numbers"""
    import tomlkit

    doc = tomlkit.loads(text)
    tab = doc["chemistry"]["rate_modifier"]
    for k in list(tab):
        v = str(tab[k]).strip()
        tab[k] = int(v) if v.lstrip("-").isdigit() else float(v)
    return tomlkit.dumps(doc)


def cli_args(rate_mod, ode_mod, method="dense", solver="cvode"):
    a = ["--name", "t", "--description", "d", "--loading", "", "--elements", "H,C", "--pseudo-elements", "Photon,CR", "--element-replacement", "", "--surface-prefix", "#", "--bulk-prefix", "@",
         "--allowed-species", "", "--extra-species", "", "--binding", "", "--yield", "", "--grain-symbol", "GRAIN", "--grain-model", "", "--network-files", "net.kida", "--file-formats", "kida",
         "--heating", "", "--cooling", "", "--shielding", "", "--solver", solver, "--device", "cpu", "--method", method]
    for k, v in (rate_mod or {}).items():
        a += ["--rate-modifier", f"{k}: {v}"]
    for sp, d in (ode_mod or {}).items():
        for f, deps in zip(d["factors"], d["reactants"]):
            a += ["--ode-modifier", f"{sp}: {f}, [{' '.join(deps)}]"]
    return a


def analyse(kind, name, tier):
    res = {"case": f"{kind}:{name}", "ok": [], "unknown": [], "viol": [], "errors": [], "notes": [], "samples": [], "solver_s": 0.0, "programs": 0, "functions": []}
    try:
        _analyse(kind, name, tier, res)
    except Exception as e:
        res["errors"].append(f"{type(e).__name__}: {e}\n{traceback.format_exc()[-1500:]}")
    return res


def _terms(p, tdir, res):
    rr = ode.run_rates(p, tdir, lifted=ode.load(p, tdir, "rates", extra=("naunet_constants.cpp" if tdir != "odeint_rosenbrock4" else "naunet_constants.cpp",), lift=True))
    fx = ode.run_fex(p, tdir)
    res["programs"] += 1
    return rr, fx


def _analyse(kind, name, tier, res):
    files = [{"name": "net.kida", "content": KIDA_SMALL_TEXT if name in SMALL_INDEX_SETS else KIDA_TEXT}]
    base_kw = {"filelist": "net.kida", "fileformats": "kida", "elements": ["H", "C"], "pseudo_elements": ["Photon", "CR"]}
    rate_mod = RATE_SETS[name] if kind == "rate" else None
    ode_mod = ODE_SETS[name] if kind == "ode" else None
    tdirs = ["cvode_dense"] + (["odeint_rosenbrock4"] if tier == "thorough" or name in ("present", "dep2-signed") else [])
    targets = [proj.TARGETS["dense"], proj.TARGETS["odeint"]]
    plain = proj.render("plain-small" if name in SMALL_INDEX_SETS else "plain", {"files": files, "network": base_kw, "targets": targets})
    kw = dict(base_kw)
    if rate_mod:
        kw["rate_modifier"] = {str(k): v for k, v in rate_mod.items()}
    if ode_mod:
        kw["ode_modifier"] = ode_mod
    api = proj.render(f"api-{name}", {"files": files, "network": kw, "targets": targets})
    if not plain.ok or not api.ok:
        res["errors"].append(f"render failed: {plain.meta.get('error')} / {api.meta.get('error')}")
        return
    idxs = [r["idxfromfile"] for r in api.meta["reactions"]]
    slots = None
    for tdir in tdirs:
        tag = f"{kind}:{name}/{tdir}"
        try:
            rp, fp = _terms(plain, tdir, res)
            ra, fa = _terms(api, tdir, res)
        except Inconclusive as e:
            res["unknown"].append((tag, f"encoder: {e}"))
            continue
        for run in (rp, fp, ra, fa):
            if run.compile_errors:
                tu, err = next(iter(run.compile_errors.items()))
                first = next((l for l in err.splitlines() if "error:" in l), err[:200])
                res["viol"].append({"key": f"{tag}:compile", "what": f"modifier makes the emitted {tu} invalid C++: {first[-200:]}", "replay": {"case": tag, "stderr": err[-1000:], "replay_note": "clang++-14 rejects the emitted source"}})
                return
        res["functions"] += [f"{tdir}:EvalRates", f"{tdir}:Fex"]
        macros = api.macros(tdir)
        slots = {s["name"]: macros["IDX_" + s["alias"]] for s in api.meta["species"]}
        s = z3.Solver()
        s.set("timeout", 60_000)
        s.add(z3.Real("Tgas") > 0, z3.Real("Av") != 0)
        s.add(inv_axioms())
        t0 = time.time()

        def ask(nm, a, b, what, replay=None):
            r_ = str(s.check(R(a) != R(b)))
            XC.sample(s, [R(a) != R(b)], r_, nm)
            if r_ == "unsat":
                res["ok"].append(nm)
                if len(res["samples"]) < 2:
                    res["samples"].append({"obligation": nm, "lhs": str(z3.simplify(R(a)))[:160], "rhs": str(z3.simplify(R(b)))[:160], "verdict": "unsat"})
            elif r_ == "sat":
                m = s.model()
                res["viol"].append({"key": nm, "what": f"{what}: emitted {z3.simplify(R(a))} vs expected {z3.simplify(R(b))}"[:400], "replay": dict(replay or {}, case=tag, model={str(d): str(m[d]) for d in m.decls()[:12]}, replay_note="both sides are terms of the compiled emitted code / the user's modifier text")})
            else:
                res["unknown"].append((nm, "solver " + r_))

        # rate modifier: exactly the reactions carrying the key
        for i, idx in enumerate(idxs):
            if rate_mod and idx in rate_mod:
                exp = cexpr.to_z3(rate_mod[idx])
                ask(f"{tag}:k[{i}]=modifier({idx})", ra.kout[i], exp, f"reaction {i} carries index {idx} but its rate is not the modifier value")
            else:
                ask(f"{tag}:k[{i}]-untouched", ra.kout[i], rp.kout[i], f"reaction {i} (index {idx}) is not targeted but its rate coefficient changed")
        # ODE modifier: target species gets sum fact*prod(dep), others unchanged
        NS = macros["NSPECIES"]
        extra = [z3.RealVal(0)] * NS
        for sp, d in (ode_mod or {}).items():
            for f, deps in zip(d["factors"], d["reactants"]):
                t = cexpr.to_z3(f)
                for dn in deps:
                    t = R(t) * fa.y[slots[dn]]
                extra[slots[sp]] = extra[slots[sp]] + R(t)
        for j in range(NS):
            ask(f"{tag}:ydot[{j}]", fa.ydot[j], R(fp.ydot[j]) + extra[j], f"right-hand side of slot {j} differs from plain + modifier terms")
        res["solver_s"] += time.time() - t0
    # configuration-file path: init -> naunet_config.toml -> render
    tdir = "cvode_dense"
    cli = proj.render_cli(f"cli-{name}", files, cli_args(rate_mod, ode_mod), tdir, edit_config=_toml_numbers if name == "toml-numbers" else None)
    tag = f"{kind}:{name}/cli"
    if not cli.ok:
        res["viol"].append({"key": f"{tag}:refused", "what": f"modifier set accepted by the API is refused on the init/render path: {cli.meta.get('error', '')[-300:]}", "replay": {"args": cli_args(rate_mod, ode_mod)}})
        return
    try:
        rc, fc = _terms(cli, tdir, res)
        ra, fa = _terms(api, tdir, res)
    except Inconclusive as e:
        res["unknown"].append((tag, f"encoder: {e}"))
        return
    for run in (rc, fc):
        if run.compile_errors:
            tu, err = next(iter(run.compile_errors.items()))
            res["viol"].append({"key": f"{tag}:compile", "what": f"project rendered through the configuration file does not compile ({tu})", "replay": {"stderr": err[-800:], "args": cli_args(rate_mod, ode_mod)}})
            return
    mc, ma = cli.macros(tdir), api.macros(tdir)
    if mc != ma:
        diff = {k: (ma.get(k), mc.get(k)) for k in set(ma) | set(mc) if ma.get(k) != mc.get(k)}
        res["viol"].append({"key": f"{tag}:macros", "what": f"macro table differs between API and configuration-file rendering: {diff}", "replay": {"diff": diff}})
        return
    s = z3.Solver()
    s.set("timeout", 60_000)
    s.add(inv_axioms())
    for i in range(len(ra.kout)):
        r_ = str(s.check(R(ra.kout[i]) != R(rc.kout[i])))
        if r_ == "unsat":
            res["ok"].append(f"{tag}:k[{i}]")
        elif r_ == "sat":
            res["viol"].append({"key": f"{tag}:k[{i}]", "what": f"rate {i} differs between API and configuration-file rendering: {z3.simplify(R(ra.kout[i]))} vs {z3.simplify(R(rc.kout[i]))}"[:400], "replay": {"args": cli_args(rate_mod, ode_mod), "config": cli.meta.get("config_text", "")[-1500:]}})
        else:
            res["unknown"].append((f"{tag}:k[{i}]", r_))
    for j in range(len(fa.ydot)):
        r_ = str(s.check(R(fa.ydot[j]) != R(fc.ydot[j])))
        if r_ == "unsat":
            res["ok"].append(f"{tag}:ydot[{j}]")
        elif r_ == "sat":
            res["viol"].append({"key": f"{tag}:ydot[{j}]", "what": f"right-hand side {j} differs between API and configuration-file rendering: {z3.simplify(R(fa.ydot[j]))} vs {z3.simplify(R(fc.ydot[j]))}"[:400], "replay": {"args": cli_args(rate_mod, ode_mod), "config": cli.meta.get("config_text", "")[-1500:]}})
        else:
            res["unknown"].append((f"{tag}:ydot[{j}]", r_))


def analyse_unindexed(tier):
    """API network without indices: re-indexed by joining order before rendering"""
    res = {"case": "unindexed", "ok": [], "unknown": [], "viol": [], "errors": [], "notes": [], "samples": [], "solver_s": 0.0, "programs": 0, "functions": []}
    try:
        rs = [rx(["C", "CH"], ["C2", "H"], a=2.4e-10), rx(["H", "C2"], ["C", "CH"], a=4.67e-10, b=0.5), rx(["C", "H"], ["CH"], a=1e-17), rx(["CH", "Photon"], ["C", "H"], t=102, a=9.2e-10, c=1.7),
              # two further channels that compare equal to reactions 0 and 1 (same species, window, type) but carry other coefficients
              rx(["C", "CH"], ["C2", "H"], a=7.5e-11, b=-0.5), rx(["C2", "H"], ["CH", "C"], a=1.1e-10, c=30.0)]
        plain = proj.render("u-plain", {"reactions": rs, "network": {}, "targets": [proj.TARGETS["dense"]]})
        rp, _ = _terms(plain, "cvode_dense", res)
        s = z3.Solver()
        s.add(inv_axioms())
        mods = {"two": {1: "5.0e-11*Av", 3: "zeta"}, "later-duplicate": {4: "3.0e-10*Av"}, "first-of-duplicates": {0: "zeta*2.0"}, "both-duplicates": {1: "1.5e-10", 5: "Av/3.0"}}
        for mname, mod in mods.items():
            api = proj.render(f"u-mod-{mname}", {"reactions": rs, "network": {"rate_modifier": {str(k): v for k, v in mod.items()}}, "targets": [proj.TARGETS["dense"]]})
            if not api.ok or not api.target_ok("cvode_dense"):
                res["viol"].append({"key": f"unindexed:{mname}:refused", "what": f"unindexed network with rate modifier {mod} is refused: {str(api.meta.get('error'))[-200:]}", "replay": {"modifier": mod}})
                continue
            ra, _ = _terms(api, "cvode_dense", res)
            for i in range(len(rs)):
                exp = cexpr.to_z3(mod[i]) if i in mod else rp.kout[i]
                r_ = str(s.check(R(ra.kout[i]) != R(exp)))
                XC.sample(s, [R(ra.kout[i]) != R(exp)], r_, f"unindexed:{mname}:k[{i}]")
                nm = f"unindexed:{mname}:k[{i}]"
                if r_ == "unsat":
                    res["ok"].append(nm)
                elif r_ == "sat":
                    res["viol"].append({"key": nm, "what": f"unindexed network, modifier set {mod}: reaction at joining position {i} {'is not replaced by its modifier' if i in mod else 'does not keep its own rate'}: emitted {z3.simplify(R(ra.kout[i]))}"[:340], "replay": {"modifier": mod, "reactions": rs}})
                else:
                    res["unknown"].append((nm, r_))
    except Exception as e:
        res["errors"].append(f"{type(e).__name__}: {e}\n{traceback.format_exc()[-1200:]}")
    return res


def analyse_mixed(tier):
    """a file with reaction indices joined by one API-built reaction without index: the file indices keep their
    meaning, the unindexed reaction is targeted by no key"""
    res = {"case": "mixed-indexed-unindexed", "ok": [], "unknown": [], "viol": [], "errors": [], "notes": [], "samples": [], "solver_s": 0.0, "programs": 0, "functions": []}
    try:
        files = [{"name": "net.kida", "content": KIDA_TEXT}]
        kw = {"filelist": "net.kida", "fileformats": "kida", "elements": ["H", "C"], "pseudo_elements": ["Photon", "CR"]}
        add = [{"op": "exec", "code": "net.add_reaction(Reaction(['C2', 'H'], ['CH', 'C'], alpha=3.3e-11, beta=0.0, gamma=0.0, reaction_type=ReactionType(100)))\n"}]
        idxs = [r["idx"] for r in KIDA_LINES] + [-1]
        plain = proj.render("mixed-plain", {"files": files, "network": kw, "ops": add, "targets": [proj.TARGETS["dense"]]})
        if not plain.ok:
            res["errors"].append(f"render failed: {plain.meta.get('error')}")
            return res
        rp, _ = _terms(plain, "cvode_dense", res)
        if len(rp.kout) != len(idxs):
            res["unknown"].append(("mixed", f"{len(rp.kout)} reactions, expected {len(idxs)}"))
            return res
        s = z3.Solver()
        s.add(inv_axioms())
        for mname, mod in {"file-index": {12: "5.0e-11*Av", 15: "zeta"}, "position-like": {1: "7.0e-10", 5: "2.0*zeta"}, "shared": {14: "Av*2.0"}}.items():
            api = proj.render(f"mixed-{mname}", {"files": files, "network": dict(kw, rate_modifier={str(k): v for k, v in mod.items()}), "ops": add, "targets": [proj.TARGETS["dense"]]})
            if not api.ok or not api.target_ok("cvode_dense"):
                res["notes"].append(f"mixed:{mname}: refused: {str(api.meta.get('error'))[-160:]}")
                continue
            ra, _ = _terms(api, "cvode_dense", res)
            for i, idx in enumerate(idxs):
                exp = cexpr.to_z3(mod[idx]) if idx in mod else rp.kout[i]
                nm = f"mixed:{mname}:k[{i}]"
                r_ = str(s.check(R(ra.kout[i]) != R(exp)))
                XC.sample(s, [R(ra.kout[i]) != R(exp)], r_, nm)
                if r_ == "unsat":
                    res["ok"].append(nm)
                elif r_ == "sat":
                    res["viol"].append({"key": nm, "what": f"file with reaction indices plus one unindexed API reaction, modifier set {mod}: reaction {i} (file index {idx}) {'is not replaced by its modifier' if idx in mod else 'does not keep its own rate'}: emitted {z3.simplify(R(ra.kout[i]))}"[:360], "replay": {"modifier": mod, "file_indices": idxs}})
                else:
                    res["unknown"].append((nm, r_))
    except Exception as e:
        res["errors"].append(f"{type(e).__name__}: {e}\n{traceback.format_exc()[-1200:]}")
    return res


def _work_inner(a):
    if a[0] == "unindexed":
        return analyse_unindexed(a[2])
    if a[0] == "mixed":
        return analyse_mixed(a[2])
    return analyse(*a)


def _work(a):
    tier = a[-1] if isinstance(a[-1], str) and a[-1] in ("quick", "thorough") else next((x for x in a if x in ("quick", "thorough")), "quick")
    XC.__init__(every=15 if tier == "thorough" else 60, first=1, cap=10 if tier == "thorough" else 3)
    r = _work_inner(a)
    if isinstance(r, dict):
        r["xcheck"] = XC.summary()
    return r


def main(pid, tier):
    chk = Check("C13", tier)
    proj.ensure_venv()
    work = [("rate", n, tier) for n in RATE_SETS] + [("ode", n, tier) for n in ODE_SETS] + [("unindexed", "", tier), ("mixed", "", tier)]
    ctx = mp.get_context("fork")
    with cf.ProcessPoolExecutor(max_workers=12, mp_context=ctx) as ex:
        results = list(ex.map(_work, work))
    for r in results:
        chk.programs += r["programs"]
        chk.solver_s += r["solver_s"]
        chk.functions.update(r["functions"])
        chk.xc.merge(r.get("xcheck"))
        for n in r["ok"]:
            chk.ok(n)
            chk.nontrivial.add(n)
        for n, w in r["unknown"]:
            chk.unknown(n, w)
        for v in r["viol"]:
            chk.violation(v["key"], v["what"], v["replay"])
        for e in r["errors"]:
            chk.harness_error(f"{r['case']}: {e}")
        for s_ in r["samples"]:
            chk.sample(s_)
    chk.bounds = {"network": "6-reaction KIDA file (two reactions share index 14, windows, photo and CR types) and a 4-reaction unindexed API network", "rate_modifier_sets": {k: {str(a): b for a, b in v.items()} for k, v in RATE_SETS.items()}, "ode_modifier_sets": list(ODE_SETS), "paths": ["Network(...) API", "naunet init -> naunet_config.toml -> naunet render"], "back_ends": ["cvode dense", "odeint (subset in quick)"]}
    chk.assumptions = ["modifier texts are arithmetic over parameters and literals (read by vf/cexpr.py)", "all parameters/abundances/rates symbolic; real arithmetic; Tgas>0, Av!=0"]
    chk.extra["repo_fingerprint"] = proj.repo_fingerprint()
    return chk.finish(rule="one obligation = one z3 equivalence query between terms of the modified project, the plain project and the modifier text, per reaction / species / path")
