"""Shared per-case analysis for the ODE-structure properties C01-C04.

`analyse(case_name, case_spec..., props)` runs in a worker process: it renders the
case with the real generator, lowers and symbolically executes the back-ends,
discharges the obligations with z3 and *replays* every satisfiable one against
the natively compiled emitted code before calling it a violation.
"""
from __future__ import annotations

import os
import random
import time
import traceback
from fractions import Fraction

import z3

from . import native, ode, proj
from .irsym import DIVZERO_SEEN, Dual, Inconclusive, R, inv_axioms, is_sym, reciprocal, val_of

SOLVER_TIMEOUT_MS = 60_000


# --------------------------------------------------------------------------- reference law
def slot_map(case, meta, macros):
    """canonical species name -> slot, via the IDX_ macro of the generator's alias"""
    out = {}
    for s in meta["species"]:
        key = "IDX_" + s["alias"]
        if key not in macros:
            raise KeyError(f"macro {key} missing")
        out[case.canon(s["name"])] = macros[key]
    return out


def ref_reactions(case, meta):
    """list of (reactant names, product names) in rate-index order, pseudo dropped"""
    if case.ref == "fed" and case.spec.get("reactions") is not None:
        src = [(r["reactants"], r["products"]) for r in case.spec["reactions"]]
    elif case.ref == "fed" and getattr(case, "fed_lines", None) is not None:
        # files written by the corpus itself: the reference is what was written, in file order
        src = [(r["reactants"], r["products"]) for r in case.fed_lines]
    else:
        src = [(r["reactants"], r["products"]) for r in meta["reactions"]]
    out = []
    for rs, ps in src:
        out.append(([case.canon(x) for x in rs if x not in case.pseudo], [case.canon(x) for x in ps if x not in case.pseudo]))
    return out


def mass_action(zero, y, k, reactions, slots, nspec):
    ref = [zero] * nspec
    for r, (rs, ps) in enumerate(reactions):
        mono = k[r]
        for a in rs:
            mono = mono * y[slots[a]]
        for a in rs:
            ref[slots[a]] = ref[slots[a]] - mono
        for a in ps:
            ref[slots[a]] = ref[slots[a]] + mono
    return ref


def thermal_sum(zero, y, kh, kc, meta, slots, canon):
    s = zero
    for h, hp in enumerate(meta.get("heating", [])):
        m = kh[h]
        for a in hp["reactants"]:
            m = m * y[slots[canon(a)]]
        s = s + m
    for c, cp in enumerate(meta.get("cooling", [])):
        m = kc[c]
        for a in cp["reactants"]:
            m = m * y[slots[canon(a)]]
        s = s - m
    return s


# --------------------------------------------------------------------------- solver helpers
class Q:
    """one incremental solver per project; tallies time"""

    def __init__(self, xcheck="off"):
        self.s = z3.Solver()
        self.s.set("timeout", SOLVER_TIMEOUT_MS)
        # divisors of the thermal row: particle density and k_B are non-zero
        self.s.add(z3.Real("GetNumDens") != 0, z3.Real("kerg") != 0)
        self.time = 0.0
        self.n = 0
        from .xcheck import XCheck
        # second solver on a sample: thorough = first + every 40th query of every project, quick = first query of ~1 project in 8
        self.xc = XCheck(every=40, first=1, cap=6) if xcheck == "thorough" else XCheck(every=10**9, first=1 if xcheck == "quick-sampled" else 0, cap=1)

    def differs(self, a, b, extra=()):
        """is there a valuation with a != b ?  -> ('unsat'|'sat'|'unknown', model)"""
        t0 = time.time()
        self.s.push()
        for e in extra:
            self.s.add(e)
        self.s.add(R(a) != R(b))
        r = self.s.check()
        m = self.s.model() if r == z3.sat else None
        self.s.pop()
        self.time += time.time() - t0
        self.n += 1
        self.xc.sample(self.s, list(extra) + [R(a) != R(b)], str(r), f"differs#{self.n}")
        return str(r), m

    def sat(self, f):
        t0 = time.time()
        self.s.push()
        self.s.add(f)
        r = self.s.check()
        m = self.s.model() if r == z3.sat else None
        self.s.pop()
        self.time += time.time() - t0
        self.n += 1
        return str(r), m


def mval(model, v, default=1.0):
    """float value of z3 real/int variable `v` in `model`"""
    if model is None:
        return default
    x = model.eval(v, model_completion=True)
    try:
        if z3.is_rational_value(x):
            return float(Fraction(x.numerator_as_long(), x.denominator_as_long()))
        if z3.is_int_value(x):
            return float(x.as_long())
        if z3.is_algebraic_value(x):
            return float(x.approx(20).as_fraction())
    except Exception:
        pass
    return default


def point_from_model(model, run, rnd=None):
    g = (lambda v: mval(model, v)) if rnd is None else (lambda v: rnd.choice([-1, 1]) * rnd.uniform(0.25, 4.0))
    pt = {
        "y": [g(v) for v in run.y],
        "k": [g(v) for v in run.k],
        "kh": [g(v) for v in run.kh],
        "kc": [g(v) for v in run.kc],
        "data": {n: g(v) for n, v in run.data.items() if is_sym(v)},
        "npar": g(z3.Real("GetNumDens")),
        "mu": g(z3.Real("GetMu")),
        "gamma_opq": g(z3.Real("GetGamma")),
    }
    if rnd is not None:
        pt["npar"] = abs(pt["npar"])
    if pt["npar"] == 0:
        pt["npar"] = 1.0
    return pt


def native_eval(nat, pt):
    return nat.eval(pt["y"], pt["k"], pt["kh"], pt["kc"], pt["data"], npar=pt["npar"], mu=pt["mu"], gamma=pt["gamma_opq"])


def ref_numeric(case, meta, slots, NS, pt, thermal, kerg):
    """reference law at a float point, exact rational arithmetic"""
    F = lambda x: Fraction(x)
    y = [F(v) for v in pt["y"]]
    k = [F(v) for v in pt["k"]]
    ref = mass_action(Fraction(0), y, k, ref_reactions(case, meta), slots, NS)
    if thermal:
        ts = thermal_sum(Fraction(0), y, [F(v) for v in pt["kh"]], [F(v) for v in pt["kc"]], meta, slots, case.canon)
        g = F(pt["data"].get("gamma", -1.0))
        if g < 0:
            g = F(pt["gamma_opq"])
        ref.append((g - 1) * ts / F(kerg) / F(pt["npar"]))
    return [float(v) for v in ref]


# --------------------------------------------------------------------------- the per-case worker
def analyse(case, tier, props, target_keys, seed=0):
    """returns a JSON-able dict; never raises"""
    res = {"case": case.name, "targets": {}, "render_wall": 0.0, "errors": [], "obl": {p: {"n": 0, "ok": 0, "unknown": [], "viol": [], "samples": []} for p in props},
           "functions": [], "solver_s": 0.0, "replays": 0, "canary": {"exp": 0, "got": 0}, "programs": 0, "notes": []}
    try:
        _analyse(case, tier, props, target_keys, seed, res)
    except Exception as e:  # harness failure: reported, never a verdict
        res["errors"].append(f"{type(e).__name__}: {e}\n{traceback.format_exc()[-1500:]}")
    # second-solver tallies of this worker's solvers (the solver objects themselves are not picklable)
    from .xcheck import XCheck
    tot = XCheck()
    for q in res.pop("_qs", []):
        tot.merge(q.xc.summary())
    res["xcheck"] = tot.summary()
    return res


def _ob(res, p):
    return res["obl"][p]


def _ok(res, p, n=1):
    res["obl"][p]["n"] += n
    res["obl"][p]["ok"] += n


def _unk(res, p, name, why):
    res["obl"][p]["n"] += 1
    res["obl"][p]["unknown"].append((name, str(why)[:300]))


def _viol(res, p, key, what, replay):
    res["obl"][p]["n"] += 1
    res["obl"][p]["viol"].append({"key": key, "what": what, "replay": replay})


def _analyse(case, tier, props, target_keys, seed, res):
    want_pattern = "C03" in props
    targets = []
    for k in target_keys:
        t = dict(proj.TARGETS[k])
        if want_pattern:
            t["jac_pattern"] = True
        targets.append(t)
    p = proj.render(case.name, case.with_targets(targets))
    res["render_wall"] = p.wall
    if not p.ok:
        res["notes"].append(f"generator refused the network: {p.meta.get('error')}")
        res["render_refused"] = p.meta.get("error")
        return
    meta = p.meta
    if "C04" in props and "balanced" in case.tags and getattr(case, "composition", None) is not None:
        _c04_as_read(case, meta, res)
    jac_terms = {}  # tdir -> dict (r,c)->term   (for C03 cross-layout agreement)
    for t in targets:
        tdir = t["dir"]
        if not p.target_ok(tdir):
            res["notes"].append(f"{tdir}: render raised {p.meta['targets'][tdir].get('error')}")
            res["targets"][tdir] = {"render_error": p.meta["targets"][tdir].get("error")}
            continue
        res["programs"] += 1
        tr = res["targets"][tdir] = {}
        try:
            _analyse_target(case, tier, props, p, meta, tdir, res, tr, jac_terms, seed)
        except Inconclusive as e:
            for pr in props:
                _unk(res, pr, f"{case.name}/{tdir}", f"encoder: {e}")
    if "C03" in props and len(jac_terms) > 1:
        _c03_agree(case, p, res, jac_terms)
    if "C03" in props:
        # the layouts of one network are generated from the same entries: a Jacobian that is valid C++ in one layout and
        # not in another is a disagreement between the layouts (each unit's own validity is C02's subject)
        okd = sorted(d for d, t_ in res["targets"].items() if t_.get("jac_compiled"))
        bad = sorted(d for d, t_ in res["targets"].items() if t_.get("jac_compile_error"))
        if okd and bad:
            first = next((l for l in res["targets"][bad[0]]["jac_compile_error"].splitlines() if "error:" in l), "")
            _viol(res, "C03", f"{case.name}:layouts:compile:{'+'.join(bad)}", f"the Jacobian of {case.name} is valid C++ for {okd} but not for {bad}: the layouts do not hold the same entries ({first.strip()[-160:]})",
                  {"case": case.name, "compiles": okd, "rejected": bad, "stderr": res["targets"][bad[0]]["jac_compile_error"], "spec": _small_spec(case), "replay_note": "the real compiler (clang++-14) rejects the emitted source of one layout only"})


def _analyse_target(case, tier, props, p, meta, tdir, res, tr, jac_terms, seed):
    kind = ode.KIND[tdir]
    macros = p.macros(tdir)
    NEQ, NS, NR = macros["NEQUATIONS"], macros["NSPECIES"], macros["NREACTIONS"]
    NH, NC, NNZ = macros.get("NHEATPROCS", 0), macros.get("NCOOLPROCS", 0), macros.get("NNZ", 0)
    thermal = bool(NH or NC)
    tag = f"{case.name}/{tdir}"
    import zlib
    q = Q("thorough" if tier == "thorough" else ("quick-sampled" if zlib.crc32(tag.encode()) % 8 == 0 else "off"))
    res.setdefault("_qs", []).append(q)
    slots = slot_map(case, meta, macros)
    nat_cache = {}

    def nat():
        if "n" not in nat_cache:
            nat_cache["n"] = native.NativeEval(p, tdir)
        return nat_cache["n"]

    need_fex = any(x in props for x in ("C01", "C02", "C03", "C04"))
    fex = None
    if need_fex:
        fex = ode.run_fex(p, tdir)
        if fex.compile_errors:
            for pr in props:
                _viol_compile(res, pr, tag, fex.compile_errors, p, tdir, "modifier" in case.tags)
            return
        res["functions"].append(f"{tdir}:Fex")
        tr["fex_steps"] = fex.steps

    # ---------------------------------------------------------------- C01
    if "C01" in props:
        rx = ref_reactions(case, meta)
        if len(rx) != NR and not (len(rx) == 0 and NR == 1):
            _viol(res, "C01", f"{tag}:NREACTIONS", f"NREACTIONS={NR} but network has {len(rx)} reactions", {"case": case.name})
        lost = sorted({a_ for rs, ps in rx for a_ in rs + ps if a_ not in slots})
        if lost:
            # a species of the reactions that were fed has no slot in the generated system: nothing to compare term by term
            _viol(res, "C01", f"{tag}:species-without-slot", f"species {lost} of the input reactions have no equation in the generated system (no index macro): their reactions cannot obey the mass-action law", {"case": case.name, "target": tdir, "spec": _small_spec(case),
                  "slots": {k_: int(v_) for k_, v_ in slots.items()}, "replay_note": "render the spec; naunet_macros.h lists the IDX_ macros"})
            return
        ref = mass_action(z3.RealVal(0), fex.y, fex.k, rx, slots, NS)
        if thermal:
            ts = thermal_sum(z3.RealVal(0), fex.y, fex.kh, fex.kc, meta, slots, case.canon)
            gam = fex.data["gamma"]
            geff = z3.If(gam < 0, z3.Real("GetGamma"), gam)
            ref.append((geff - 1) * ts * reciprocal(z3.Real("kerg")) * reciprocal(z3.Real("GetNumDens")))
        elif NEQ > NS:
            ref.append(z3.RealVal(0))  # NEQUATIONS=1 for an empty network
        for i in range(NEQ):
            name = f"{tag}:ydot[{i}]"
            if fex.ydot[i] is None:
                if NS == 0 and i == 0:
                    # empty network: one dummy equation; nothing is required of it
                    _ok(res, "C01")
                    continue
                _viol(res, "C01", name, f"derivative slot {i} is never assigned by the generated right-hand side", {"case": case.name, "target": tdir})
                continue
            r, m = q.differs(fex.ydot[i], ref[i])
            if r == "unsat":
                _ok(res, "C01")
                if len(_ob(res, "C01")["samples"]) < 2:
                    _ob(res, "C01")["samples"].append({"obligation": name, "negated": f"ydot[{i}] != reference", "emitted": str(z3.simplify(R(fex.ydot[i])))[:300], "verdict": "unsat"})
            elif r == "sat":
                _replay_fex(case, p, meta, tdir, res, "C01", name, i, fex, m, slots, NS, thermal, nat, seed)
            else:
                _unk(res, "C01", name, "solver " + r)
        # the temperature equation divides by the particle density: the emitted helper it calls is the sum of the
        # species abundances (the state vector of a thermal network carries the temperature behind them)
        if thermal and NS >= 1:
            _c01_numdens(case, p, tdir, res, q, NEQ, NS, tag)
        # the integrator evaluates the right-hand side over and over: a second evaluation in the state the first left
        if NS >= 1 and NR >= 1:
            _c01_second_call(case, p, tdir, res, fex, q, NEQ, tag)
        # cusparse: the kernel walks several cells; the second cell must obey the same law with *its* abundances,
        # parameters and helper values (one thread, two systems)
        if kind == "cusparse" and NS >= 1 and NR >= 1:
            _c01_second_cell(case, p, tdir, res, fex, ref, q, NEQ, tag)
        # canary: a perturbed reference must be distinguishable
        if NR >= 1 and NS >= 1 and fex.ydot[0] is not None and any(rs or ps for rs, ps in rx):
            tgt = next((slots[a] for rs, ps in rx for a in rs + ps), 0)
            res["canary"]["exp"] += 1
            r, _ = q.differs(fex.ydot[tgt], ref[tgt] + fex.k[0] * fex.y[tgt] + 1)
            if r == "sat":
                res["canary"]["got"] += 1

    do_self = need_fex and (tier == "thorough" or "selfcheck" in case.tags or len(case.spec.get("reactions") or []) <= 8)
    if do_self and "C01" in props and "C02" not in props and "C03" not in props:
        selfcheck(case, p, tdir, res, fex, None, kind, seed)

    # ---------------------------------------------------------------- C04
    if "C04" in props:
        _c04(case, p, meta, tdir, res, fex, q, slots, NS, tag)

    # ---------------------------------------------------------------- C02 / C03 need the Jacobian
    if "C02" in props or "C03" in props:
        jac = ode.run_jac(p, tdir)
        if jac.compile_errors:
            tr["jac_compile_error"] = next(iter(jac.compile_errors.values()))[-600:]
            for pr in ("C02", "C03"):
                if pr in props:
                    _viol_compile(res, pr, tag, jac.compile_errors, p, tdir, "modifier" in case.tags)
            return
        tr["jac_compiled"] = True
        res["functions"].append(f"{tdir}:Jac")
        J, structural = _jac_entries(kind, jac, NEQ, NNZ)
        jac_terms[tdir] = J
        tr["nnz_seen"] = len(J) if J is not None else None
        if do_self and J is not None:
            selfcheck(case, p, tdir, res, fex, J, kind, seed)
        if "C02" in props:
            dual = ode.run_fex(p, tdir, dual=True)
            _c02(case, p, meta, tdir, res, dual, jac, J, structural, q, NEQ, tag, nat, seed, kind)
            if kind == "cusparse" and NNZ and NS >= 1:
                _c02_second_cell(case, p, tdir, res, jac, q, NEQ, NNZ, tag)
        if "C03" in props:
            _c03_target(case, p, meta, tdir, res, fex, jac, J, structural, q, NEQ, NNZ, NR, NH, NC, tag, kind)
    res["solver_s"] += q.time


def _c01_second_cell(case, p, tdir, res, fex, ref, q, NEQ, tag):
    fex2 = ode.run_fex(p, tdir, nsystem=2)
    if fex2.compile_errors or len(fex2.ydot) != 2 * NEQ:
        _unk(res, "C01", f"{tag}:cell1", "two-system run unavailable")
        return
    off = 8 * NEQ
    pairs = [(fex.y[i], fex2.y[NEQ + i]) for i in range(NEQ)]
    pairs += [(v, z3.Real(f"{v}_1")) for v in fex.data.values() if is_sym(v) and z3.is_const(v)]
    helper_syms = set()
    for t in ref:
        if is_sym(t):
            for a in _consts(R(t)):
                nm = str(a)
                if nm.startswith("Get") and "@" not in nm:
                    helper_syms.add(nm)
    pairs += [(z3.Real(nm), z3.Real(f"{nm}@{off}")) for nm in sorted(helper_syms)]
    q.s.push()
    q.s.add(z3.Real(f"GetNumDens@{off}") != 0)
    for i in range(NEQ):
        name = f"{tag}:cell1:ydot[{i}]"
        got = fex2.ydot[NEQ + i]
        if got is None or ref[i] is None:
            continue
        want = z3.substitute(R(ref[i]), *pairs) if is_sym(ref[i]) else ref[i]
        r, m = q.differs(got, want)
        if r == "unsat":
            _ok(res, "C01")
        elif r == "sat":
            # native replay: two systems with identical abundances whose GetNumDens differs by a factor 2
            rp_extra = {}
            try:
                import random as _rnd

                rr_ = _rnd.Random(i)
                pt = point_from_model(None, fex, rr_)
                out = native_eval(native.NativeEval(p, tdir), pt)
                a0, a1 = out["ydot"].get(i), out.get("cell1", {}).get(i)
                uses_npar = any(str(c_) == "GetNumDens" for c_ in _consts(R(ref[i]))) if is_sym(ref[i]) else False
                exp1 = a0 / 2.0 if uses_npar else a0
                res["replays"] += 1
                rp_extra = {"native_cell0": a0, "native_cell1": a1, "expected_cell1": exp1, "point": pt}
                if a0 is not None and a1 is not None and native.close(a1, exp1, 1e-9, 1e-300):
                    _unk(res, "C01", name, "solver says the second system differs; the native two-system run agrees with the law")
                    continue
            except Exception as e:  # replay unavailable: keep the symbolic evidence
                rp_extra = {"native_replay": f"unavailable: {type(e).__name__}: {str(e)[:160]}"}
            _viol(res, "C01", f"{case.name}/{tdir}:second-cell:{'thermal-row' if i >= NEQ - 1 and NEQ > len(fex.y) - 1 else 'slot'}:{i}", f"cusparse kernel, second system: derivative {i} is {str(z3.simplify(R(got)))[:220]} but the law with that system's own abundances, parameters and helper values gives {str(z3.simplify(R(want)))[:220]}",
                  {"case": case.name, "target": tdir, "slot": i, "emitted": str(z3.simplify(R(got)))[:600], "law": str(z3.simplify(R(want)))[:600], "spec": _small_spec(case), **rp_extra, "replay_note": "terms of the compiled FexKernel run by one thread over two systems; a helper value or parameter of system 0 in system 1's derivative is visible in the emitted kernel text (y instead of y_cur)"})
        else:
            _unk(res, "C01", name, "solver " + r)
    q.s.pop()


def _c02_second_cell(case, p, tdir, res, jac, q, NEQ, NNZ, tag):
    """cusparse, one thread, two systems: the second system's stored Jacobian values are the first system's
    (verified against the derivative above) with that system's own abundances, parameters and helper values"""
    jac2 = ode.run_jac(p, tdir, nsystem=2)
    if jac2.compile_errors or not getattr(jac2, "data_vals", None) or len(jac2.data_vals) != 2 * NNZ or not getattr(jac, "data_vals", None):
        _unk(res, "C02", f"{tag}:cell1", "two-system run unavailable")
        return
    off = 8 * NEQ
    pairs = [(jac.y[i], jac2.y[NEQ + i]) for i in range(NEQ)]
    pairs += [(v, z3.Real(f"{v}_1")) for v in jac.data.values() if is_sym(v) and z3.is_const(v)]
    helper_syms = set()
    for t in jac.data_vals:
        if t is not None and is_sym(val_of(t)):
            for a in _consts(R(t)):
                nm = str(a)
                if nm.startswith("Get") and "@" not in nm:
                    helper_syms.add(nm)
    pairs += [(z3.Real(nm), z3.Real(f"{nm}@{off}")) for nm in sorted(helper_syms)]
    q.s.push()
    q.s.add(z3.Real(f"GetNumDens@{off}") != 0)
    for k in range(NNZ):
        a0, a1 = jac.data_vals[k], jac2.data_vals[NNZ + k]
        name = f"{tag}:cell1:data[{k}]"
        if a0 is None or a1 is None:
            if (a0 is None) != (a1 is None):
                _viol(res, "C02", f"{case.name}/{tdir}:second-cell:unwritten:{k}", f"cusparse kernel, second system: stored value {k} is {'never written' if a1 is None else 'written'} while the first system's is {'never written' if a0 is None else 'written'}", {"case": case.name, "target": tdir})
            continue
        want = z3.substitute(R(a0), *pairs) if is_sym(val_of(a0)) else a0
        r, m = q.differs(a1, want)
        if r == "unsat":
            _ok(res, "C02")
        elif r == "sat":
            _viol(res, "C02", f"{case.name}/{tdir}:second-cell:data:{k}", f"cusparse Jacobian kernel, second system: stored value {k} is {str(z3.simplify(R(a1)))[:200]} but with that system's own abundances, parameters and helper values it is {str(z3.simplify(R(want)))[:200]}",
                  {"case": case.name, "target": tdir, "position": k, "emitted": str(z3.simplify(R(a1)))[:600], "expected": str(z3.simplify(R(want)))[:600], "spec": _small_spec(case), "replay_note": "terms of the compiled JacKernel run by one thread over two systems (see C01's native two-system replay for the same defect class)"})
        else:
            _unk(res, "C02", name, "solver " + r)
    q.s.pop()


def _consts(t):
    seen, out, stack = set(), [], [t]
    while stack:
        e = stack.pop()
        if e.get_id() in seen:
            continue
        seen.add(e.get_id())
        if z3.is_const(e) and e.decl().kind() == z3.Z3_OP_UNINTERPRETED:
            out.append(e)
        stack.extend(e.children())
    return out


def classify_compile_error(err):
    """'harness' (shim problem), 'names' (undeclared/redefined: C10's subject), 'syntax'"""
    lines = [l for l in err.splitlines() if "error:" in l]
    first = lines[0] if lines else err[:200]
    if "/vf/shim/" in first or "file not found" in first:
        return "harness", first
    if any(w in first for w in ("undeclared identifier", "redefinition", "no member named", "was not declared", "unknown type name")):
        return "names", first
    return "syntax", first


TU_OWNER = {"naunet_fex": "C01", "naunet_jac": "C02", "naunet_ode": "C01", "naunet_rates": "C05"}


def _viol_compile(res, pr, tag, errs, p, tdir, modifier=False):
    tu, err = next(iter(errs.items()))
    kind, first = classify_compile_error(err)
    if modifier and kind == "syntax" and pr in ("C02", "C13"):
        # the only difference to a compiling project is the user's ODE modifier
        _viol(res, pr, f"{tag}:compile:{tu}", f"ODE modifier makes emitted {tu} invalid C++: {first.strip()[:200]}", {"case": tag, "tu": tu, "stderr": err[-1500:], "replay_note": "the real compiler (clang++-14) rejects the emitted source"})
        return
    if kind == "harness":
        res["errors"].append(f"{tag}: shim/compile problem: {first.strip()[:300]}")
        return
    owner = TU_OWNER.get(tu.split(".")[0].replace("verif_cu_", ""))
    if kind == "names" and owner == pr:
        # an index macro cut in two (the undeclared name is a proper prefix of a declared macro): the statement itself
        # is malformed -- a long term was broken inside an identifier -- which is this unit's subject, not a missing declaration
        import re as _re

        m = _re.search(r"undeclared identifier '(IDX_\w*)'", first)
        try:
            macros = p.macros(tdir)
        except Exception:
            macros = {}
        if m and m.group(1) not in macros and any(k.startswith(m.group(1)) and k != m.group(1) for k in macros):
            whole = sorted(k for k in macros if k.startswith(m.group(1)))[:3]
            _viol(res, pr, f"{tag}:compile:{tu}:split-identifier", f"emitted {tu} is not valid C++: the index macro {whole[0]}... is cut in two ('{m.group(1)}' at a line end): {first.strip()[-160:]}", {"case": tag, "tu": tu, "stderr": err[-1500:], "replay_note": "the real compiler (clang++-14) rejects the emitted source"})
            return
    if kind == "names" or owner != pr:
        res["notes"].append(f"{tag}: {tu} does not compile ({first.strip()[:160]}) -- judged by {'C10' if kind == 'names' else owner}; skipped here")
        _unk(res, pr, f"{tag}:compile", f"{tu} rejected by the compiler: {first.strip()[:160]}")
        return
    _viol(res, pr, f"{tag}:compile:{tu}", f"emitted {tu} is not valid C++: {first.strip()[:200]}", {"case": tag, "tu": tu, "stderr": err[-1500:], "replay_note": "the real compiler (clang++-14) rejects the emitted source"})


# --------------------------------------------------------------------------- translator self-validation
def eval_term(t, env):
    from .evalz3 import EvalError, evalf

    if t is None:
        return None
    t = val_of(t)
    if not is_sym(t):
        return float(Fraction(t))
    try:
        return evalf(R(t), env)
    except EvalError:
        return None


def selfcheck(case, p, tdir, res, fex, J, kind, seed):
    """the interpreter's terms, evaluated at a pseudo-random point, must agree with
    the natively compiled emitted code (validates IR reader + stubs + shims)"""
    rnd = random.Random(seed * 31 + len(case.name))
    pt = point_from_model(None, fex, rnd)
    pt["data"] = {n: abs(v) for n, v in pt["data"].items()}
    try:
        n = native.NativeEval(p, tdir)
        out = native_eval(n, pt)
    except native.NativeError as e:
        res["notes"].append(f"{case.name}/{tdir}: self-validation unavailable: {str(e)[:200]}")
        return
    kerg = out["aux"].get("kerg", 1.380658e-16)
    subs = {}
    for vs, xs in ((fex.y, pt["y"]), (fex.k, pt["k"]), (fex.kh, pt["kh"]), (fex.kc, pt["kc"])):
        for v, x in zip(vs, xs):
            subs[str(v)] = x
    for nm, v in fex.data.items():
        if is_sym(v):
            subs[str(v)] = pt["data"][nm]
    subs.update({"GetNumDens": pt["npar"], "GetMu": pt["mu"], "GetGamma": pt["gamma_opq"], "kerg": kerg})
    nbad = ncmp = 0
    for i, t in enumerate(fex.ydot):
        sv = eval_term(t, subs)
        if sv is None:
            continue
        ncmp += 1
        if not native.close(sv, out["ydot"].get(i), 1e-9, 1e-300):
            nbad += 1
            res["errors"].append(f"self-validation: {case.name}/{tdir} ydot[{i}] interpreter={sv!r} native={out['ydot'].get(i)!r}")
    if J:
        if kind in ("dense", "odeint"):
            natJ = out["J"]
        else:
            natJ = {}
            rp = out["rowptr"]
            for r_ in range(len(rp) - 1):
                for pos in range(rp[r_], rp[r_ + 1]):
                    c, v = out["csr"].get(pos, (-1, None))
                    natJ[(r_, c)] = v
        for (r_, c_), t in J.items():
            sv = eval_term(t, subs)
            if sv is None:
                continue
            ncmp += 1
            if not native.close(sv, natJ.get((r_, c_)), 1e-9, 1e-300):
                nbad += 1
                res["errors"].append(f"self-validation: {case.name}/{tdir} J[{r_}][{c_}] interpreter={sv!r} native={natJ.get((r_, c_))!r}")
    res.setdefault("selfcheck", {"compared": 0, "mismatch": 0, "projects": 0})
    res["selfcheck"]["compared"] += ncmp
    res["selfcheck"]["mismatch"] += nbad
    res["selfcheck"]["projects"] += 1


# --------------------------------------------------------------------------- replay helpers
def _replay_fex(case, p, meta, tdir, res, prop, name, i, fex, model, slots, NS, thermal, nat, seed):
    """confirm a sat answer on the natively compiled emitted Fex"""
    rnd = random.Random(seed * 7919 + i)
    tried = []
    try:
        n = nat()
        for attempt in range(4):
            pt = point_from_model(model, fex, None if attempt == 0 else rnd)
            out = native_eval(n, pt)
            kerg = out["aux"].get("kerg", 1.380658e-16)
            ref = ref_numeric(case, meta, slots, NS, pt, thermal, kerg)
            res["replays"] += 1
            got = out["ydot"].get(i)
            exp = ref[i] if i < len(ref) else 0.0
            tried.append((got, exp))
            if not native.close(got, exp, 1e-9, 1e-300):
                _viol(res, prop, name, f"generated right-hand side differs from the mass-action law: slot {i}: emitted {got!r}, law {exp!r}",
                      {"case": case.name, "target": tdir, "slot": i, "point": pt, "native": got, "reference": exp, "spec": _small_spec(case),
                       "cmd": f"./run replay <this file>"})
                return
        _unk(res, prop, name, f"solver said sat but the native build agrees with the reference at the model point and 3 random points {tried[:2]} (encoding/UF artefact)")
        res["errors"].append(f"non-reproducing counterexample for {name}")
    except native.NativeError as e:
        _unk(res, prop, name, f"sat, but native replay unavailable: {e}")


def _small_spec(case):
    s = case.spec
    if s.get("reactions") and len(s["reactions"]) > 60:
        return {"corpus_member": case.name, "n_reactions": len(s["reactions"])}
    return s


# --------------------------------------------------------------------------- Jacobian extraction
def _jac_entries(kind, jac, NEQ, NNZ):
    """-> (dict (r,c)->term of *stored* entries or None, list of structural problems)"""
    probs = []
    if kind in ("dense", "odeint"):
        if not jac.zeroed:
            probs.append("matrix is not zeroed exactly once before the first entry is stored")
        if jac.dup_stores:
            probs.append(f"{jac.dup_stores} Jacobian cells are assigned more than once")
        return dict(jac.J), probs
    rp, cv = jac.rowptrs, jac.colvals
    if rp is None or cv is None:
        return None, ["CSR index arrays not produced"]
    if any(v is None for v in rp):
        probs.append(f"row pointer cells never written: {[i for i, v in enumerate(rp) if v is None][:5]}")
    if any(v is None for v in cv):
        probs.append(f"column index cells never written: {[i for i, v in enumerate(cv) if v is None][:5]}")
    if any(v is None for v in jac.data_vals[:NNZ]):
        probs.append(f"data cells never written: {[i for i, v in enumerate(jac.data_vals[:NNZ]) if v is None][:5]}")
    if probs:
        return None, probs
    J = ode.csr_lookup(jac, NEQ)
    return J, probs


# --------------------------------------------------------------------------- C02
def _c02(case, p, meta, tdir, res, dual, jac, J, structural, q, NEQ, tag, nat, seed, kind):
    for s in structural:
        _viol(res, "C02", f"{tag}:structure", f"Jacobian structure: {s}", {"case": case.name, "target": tdir})
    if J is None:
        return
    zero = Fraction(0)
    nsamp = 0
    for i in range(NEQ):
        d = dual.ydot[i]
        grad = d.g if isinstance(d, Dual) else {}
        for j in range(NEQ):
            name = f"{tag}:J[{i}][{j}]"
            g = grad.get(j, zero)
            e = J.get((i, j), zero)
            if e is None:
                _viol(res, "C02", name, "Jacobian cell read but never written", {"case": case.name, "target": tdir})
                continue
            if not is_sym(g) and not is_sym(e):
                if Fraction(g) == Fraction(e):
                    _ok(res, "C02")
                    continue
            r, m = q.differs(e, g)
            if r == "unsat":
                _ok(res, "C02")
                if nsamp < 2 and is_sym(e):
                    nsamp += 1
                    if len(_ob(res, "C02")["samples"]) < 3:
                        _ob(res, "C02")["samples"].append({"obligation": name, "jacobian_entry": str(z3.simplify(R(e)))[:200], "d(ydot_i)/d(y_j) from dual-number run of Fex": str(z3.simplify(R(g)))[:200], "verdict": "unsat"})
            elif r == "sat":
                _replay_jac(case, p, tdir, res, name, i, j, dual, m, nat, seed, kind)
            else:
                _unk(res, "C02", name, "solver " + r)
    # canary
    if J:
        (ci, cj), ce = next(iter(J.items()))
        res["canary"]["exp"] += 1
        r, _ = q.differs(ce, R(ce) + 1)
        if r == "sat":
            res["canary"]["got"] += 1


def _replay_jac(case, p, tdir, res, name, i, j, run, model, nat, seed, kind):
    """native: Jacobian entry vs. 5-point-stencil derivative of the native Fex
    (exact up to rounding for polynomial right-hand sides of degree <= 4; rate
    coefficients and opaque helpers are held fixed by the replay driver)."""
    rnd = random.Random(seed * 104729 + i * 131 + j)
    try:
        n = nat()
        tried = []
        for attempt in range(4):
            pt = point_from_model(model, run, None if attempt == 0 else rnd)
            out = native_eval(n, pt)
            if kind in ("dense", "odeint"):
                got = out["J"].get((i, j))
            else:
                got = 0.0
                rp = out["rowptr"]
                for pos in range(rp.get(i, 0), rp.get(i + 1, 0)):
                    c, v = out["csr"].get(pos, (-1, 0.0))
                    if c == j:
                        got = v
            h = 0.5 * max(abs(pt["y"][j]), 1.0)

            def f(dx):
                q_ = dict(pt)
                yy = list(pt["y"])
                yy[j] = yy[j] + dx
                q_["y"] = yy
                return native_eval(n, q_)["ydot"].get(i, float("nan"))

            der = (-f(2 * h) + 8 * f(h) - 8 * f(-h) + f(-2 * h)) / (12 * h)
            res["replays"] += 1
            tried.append((got, der))
            scale = max(abs(der), abs(got or 0.0), 1e-300)
            if got is None or abs(got - der) > 1e-6 * scale:
                _viol(res, "C02", name, f"Jacobian entry ({i},{j}) = {got!r} but d(ydot[{i}])/d(y[{j}]) of the emitted right-hand side = {der!r}",
                      {"case": case.name, "target": tdir, "entry": [i, j], "point": pt, "native_jacobian": got, "native_derivative_5pt": der, "spec": _small_spec(case)})
                return
        _unk(res, "C02", name, f"sat but native build agrees {tried[:2]}")
        res["errors"].append(f"non-reproducing counterexample for {name}")
    except native.NativeError as e:
        _unk(res, "C02", name, f"sat, but native replay unavailable: {e}")


# --------------------------------------------------------------------------- C03
def cusparse_driver(p, tdir, nsystem):
    """Naunet::Init then Naunet::Reset of the cusparse driver (naunet.cpp) executed over the object state with
    the CUDA / cuSPARSE / SUNDIALS calls as recording stubs (all set-up calls succeed).  Returns per call the
    matrices held in cv_a_[0..n_stream_in_use_), how each was allocated, which were handed to InitJac and to the
    linear solver."""
    import re as _re

    from . import harness as H
    from .checks import c19
    from .irsym import Machine, Ptr, State

    ll, err = p.compile_ir(tdir, "naunet.cpp", extra_flags=("-include", ode.H_SHIM_CUDA), pre=ode.cuda_pre, tag="cu")
    if ll is None:
        raise Inconclusive("cusparse naunet.cpp does not lower: " + err[-200:])
    M = Machine([ll], H.base_stubs())
    M.opaque_indirect = True  # virtual destructors of the execution policies
    dem = H.demangle(sorted(M.funcs))
    fields = c19.class_fields(p, tdir)
    offs, size, _ = M.struct_layout("%class.Naunet")
    if len(fields) != len(offs) or "cv_a_" not in fields or "n_stream_in_use_" not in fields:
        raise Inconclusive("class Naunet (cusparse) layout not recognised")
    fo = {n: o for n, (o, _) in zip(fields, offs)}
    rec = {"new": [], "init": [], "ls": [], "n": 0}

    def new(prefix, st, sz=8):
        rec["n"] += 1
        o = f"{prefix}{rec['n']}"
        st.size[o], st.mem[o] = sz, {}
        return Ptr(o, 0)

    def newmat(M_, st, a):
        ptr = new("mat", st)
        rec["new"].append((ptr.obj, list(a[:4])))
        return st, ptr

    def initjac(M_, st, a):
        rec["init"].append(a[0].obj if isinstance(a[0], Ptr) else None)
        return st, 0

    def linsol(M_, st, a):
        rec["ls"].append(a[1].obj if isinstance(a[1], Ptr) else None)
        return st, new("ls", st)

    noop = lambda M_, st, a: (st, 0)

    def outptr(i, prefix):
        def f(M_, st, a):
            st.store(a[i].obj, a[i].off, new(prefix, st, 1 << 20))
            return st, 0

        return f

    M.stubs.update({"SUNMatrix_cuSparse_NewBlockCSR": newmat, "SUNLinSol_cuSolverSp_batchQR": linsol, "SUNMatrix_cuSparse_SetFixedPattern": noop, "SUNMatDestroy": noop, "SUNLinSolFree": noop,
                    "N_VDestroy": noop, "N_VNew_Cuda": lambda M_, st, a: (st, new("nv", st)), "N_VSetKernelExecPolicy_Cuda": noop, "cudaFreeHost": noop, "cudaMallocHost": outptr(0, "host"),
                    "cudaStreamCreate": outptr(0, "stream"), "cusparseCreate": outptr(0, "cusp"), "cusolverSpCreate": outptr(0, "cusol"), "cusparseSetStream": noop, "cusolverSpSetStream": noop,
                    "SUNContext_Create": outptr(1, "ctx"), "fopen": lambda M_, st, a: (st, Ptr("errfp", 0)), "_Znwm": lambda M_, st, a: (st, new("heap", st, 64)), "_ZdlPv": noop})
    entry = {}
    for n, d in dem.items():
        if d.startswith("Naunet::Init("):
            entry["Init"] = n
        elif d.startswith("Naunet::Reset("):
            entry["Reset"] = n
    if len(entry) != 2:
        raise Inconclusive("Naunet::Init / Naunet::Reset not found")
    calls = set()
    for fname in entry.values():
        for b in M.funcs[fname].blocks.values():
            for I in b:
                if I.op in ("call", "invoke"):
                    m = _re.search(r"@([\w.$]+)\(", I.text)
                    if m:
                        calls.add(m.group(1))
    for n, d in H.demangle(sorted(calls)).items():
        if (d or "").startswith("InitJac("):
            M.stubs[n] = initjac
        elif "ExecPolicy::SUNCuda" in (d or ""):
            M.stubs[n] = noop
    st = State()
    st.size["this"], st.mem["this"] = size, {}
    st.size["errfp"] = 8
    out = {}
    for which in ("Init", "Reset"):
        rec["new"].clear(), rec["init"].clear(), rec["ls"].clear()
        _, ret = M.run_function(entry[which], st, [Ptr("this", 0), nsystem, z3.Real("atol"), z3.Real("rtol"), 500])
        nst = st.load("this", fo["n_stream_in_use_"])
        if not isinstance(nst, int):
            raise Inconclusive("n_stream_in_use_ is not concrete")
        mats = [st.load("this", fo["cv_a_"] + 8 * i) for i in range(nst)]
        out[which] = {"ret": ret, "streams": nst, "held": [m.obj if isinstance(m, Ptr) else None for m in mats], "allocated": list(rec["new"]), "initjac": list(rec["init"]), "linsol": list(rec["ls"])}
    return out


def cpu_driver(p, tdir):
    """Naunet::Init then Naunet::Reset of the dense / sparse (KLU) driver executed over the object state with the
    SUNDIALS constructors as recording stubs (all succeed): how the matrix kept in cv_a_ was allocated and which
    matrix the linear solver was built with, per call."""
    from . import harness as H
    from .checks import c19
    from .irsym import Machine, Ptr, State

    ll, err = p.compile_ir(tdir, "naunet.cpp")
    if ll is None:
        raise Inconclusive("naunet.cpp does not lower: " + err[-200:])
    M = Machine([ll], H.base_stubs())
    dem = H.demangle(sorted(M.funcs))
    fields = c19.class_fields(p, tdir)
    offs, size, _ = M.struct_layout("%class.Naunet")
    if len(fields) != len(offs) or "cv_a_" not in fields or "cv_ls_" not in fields:
        raise Inconclusive("class Naunet layout not recognised")
    fo = {n: o for n, (o, _) in zip(fields, offs)}
    rec = {"new": [], "ls": [], "n": 0}

    def new(prefix, st, sz=8):
        rec["n"] += 1
        o = f"{prefix}{rec['n']}"
        st.size[o], st.mem[o] = sz, {}
        return Ptr(o, 0)

    def newmat(kind_):
        def f(M_, st, a):
            ptr = new("mat", st)
            rec["new"].append((ptr.obj, [kind_] + [x for x in a[:4] if not isinstance(x, Ptr)]))
            return st, ptr
        return f

    def linsol(kind_):
        def f(M_, st, a):
            rec["ls"].append((kind_, a[1].obj if isinstance(a[1], Ptr) else None))
            return st, new("ls", st)
        return f

    noop = lambda M_, st, a: (st, 0)

    def ctx(M_, st, a):
        st.store(a[1].obj, a[1].off, new("ctx", st))
        return st, 0

    M.stubs.update({"SUNDenseMatrix": newmat("dense"), "SUNSparseMatrix": newmat("sparse"), "SUNLinSol_Dense": linsol("dense"), "SUNLinSol_KLU": linsol("klu"), "SUNMatDestroy": noop, "SUNLinSolFree": noop,
                    "N_VDestroy": noop, "N_VFreeEmpty": noop, "N_VNewEmpty_Serial": lambda M_, st, a: (st, new("nv", st)), "SUNContext_Create": ctx, "SUNContext_Free": noop,
                    "fopen": lambda M_, st, a: (st, Ptr("errfp", 0)), "printf": noop})
    entry = {}
    for n, d in dem.items():
        if d.startswith("Naunet::Init("):
            entry["Init"] = n
        elif d.startswith("Naunet::Reset("):
            entry["Reset"] = n
    if len(entry) != 2:
        raise Inconclusive("Naunet::Init / Naunet::Reset not found")
    st = State()
    st.size["this"], st.mem["this"] = size, {}
    st.size["errfp"] = 8
    out = {}
    for which in ("Init", "Reset", "Reset-again"):
        rec["new"].clear(), rec["ls"].clear()
        _, ret = M.run_function(entry[which.split("-")[0]], st, [Ptr("this", 0), 1, z3.Real("atol"), z3.Real("rtol"), 500])
        held = st.load("this", fo["cv_a_"])
        ls = st.load("this", fo["cv_ls_"])
        out[which] = {"ret": ret, "held": held.obj if isinstance(held, Ptr) else None, "allocated": list(rec["new"]), "linsol": list(rec["ls"]), "ls_held": ls.obj if isinstance(ls, Ptr) else None}
    return out


def _c03_cpu_driver(case, p, tdir, res, NEQ, NNZ, tag, kind):
    """dense / sparse: the matrix the driver keeps (and builds the linear solver with) has the declared shape and,
    for the sparse layout, the declared storage format (CSR: the generated Jac fills row pointers and column
    indices) -- after Init and again after every Reset"""
    try:
        out = cpu_driver(p, tdir)
    except Inconclusive as e:
        _unk(res, "C03", f"{tag}:driver", str(e)[:200])
        return
    res["functions"] += [f"{tdir}:Naunet::Init", f"{tdir}:Naunet::Reset"]
    CSR = 1  # CSR_MAT of sundials_types.h (CSC_MAT = 0)
    want = ["dense", NEQ, NEQ] if kind == "dense" else ["sparse", NEQ, NEQ, NNZ, CSR]
    for which, o in out.items():
        alloc = dict(o["allocated"])
        bad = None
        if o["ret"] != 0:
            bad = f"returns {o['ret']} although every set-up call succeeds"
        elif o["held"] is None:
            bad = "keeps no matrix"
        elif o["held"] not in alloc:
            bad = "keeps a matrix that this call did not allocate (stale or destroyed object)"
        elif list(alloc[o["held"]]) != want:
            a_ = alloc[o["held"]]
            fmt = {1: "CSR_MAT", 0: "CSC_MAT"}
            bad = (f"allocates the Jacobian as {a_[0]} matrix {tuple(a_[1:4])}" + (f" in format {fmt.get(a_[4], a_[4])}" if len(a_) > 4 else "")
                   + f"; the generated Jacobian fills a {want[0]} matrix ({NEQ}, {NEQ}" + (f", {NNZ}) in format CSR_MAT (row pointers, column indices)" if kind == "sparse" else ")"))
        elif not o["linsol"] or o["linsol"][-1][1] != o["held"]:
            bad = "builds the linear solver with another matrix than the one it keeps"
        elif o["linsol"][-1][0] != ("dense" if kind == "dense" else "klu"):
            bad = f"builds a {o['linsol'][-1][0]} linear solver for the {kind} layout"
        if bad:
            _viol(res, "C03", f"{case.name}/{tdir}:driver:{which}", f"{kind} Naunet::{which.split('-')[0]} {bad}", {"case": case.name, "target": tdir, "call": which, "trace": {k: str(v)[:300] for k, v in o.items()}, "replay_note": "call sequence read from the symbolic execution of the compiled naunet.cpp (all set-up calls succeeding); the constructor arguments are literal in the emitted source"})
        else:
            _ok(res, "C03")


def _c03_driver(case, p, tdir, res, NEQ, NNZ, tag):
    """cusparse only: the block-CSR matrices the driver hands to the solver have the declared shape and carry the
    generated pattern (InitJac) -- after Init and again after every Reset"""
    macros = p.macros(tdir)
    nstreams = macros.get("NSTREAMS", 1)
    for nsystem in sorted({4, 32 * nstreams}):
        try:
            out = cusparse_driver(p, tdir, nsystem)
        except Inconclusive as e:
            _unk(res, "C03", f"{tag}:driver(nsystem={nsystem})", str(e)[:200])
            continue
        res["functions"] += [f"{tdir}:Naunet::Init", f"{tdir}:Naunet::Reset"]
        for which, o in out.items():
            name = f"{tag}:{which}(nsystem={nsystem})"
            alloc = dict(o["allocated"])
            bad = None
            if o["ret"] != 0:
                bad = f"returns {o['ret']} although every set-up call succeeds"
            elif not o["held"] or any(h is None for h in o["held"]):
                bad = "leaves a stream without a matrix"
            else:
                for h in o["held"]:
                    if h not in alloc:
                        bad = "keeps a matrix that this call did not allocate (stale or destroyed object)"
                    elif list(alloc[h][1:4]) != [NEQ, NEQ, NNZ]:
                        bad = f"allocates a block-CSR matrix of shape {alloc[h][1:4]} instead of (NEQUATIONS, NEQUATIONS, NNZ) = ({NEQ}, {NEQ}, {NNZ})"
                    elif h not in o["initjac"]:
                        bad = "hands the solver a freshly allocated block-CSR matrix whose row pointers and column indices were never written (InitJac is not called on it)"
                    elif h not in o["linsol"]:
                        bad = "builds the linear solver with another matrix than the one it keeps"
                    if bad:
                        break
            if bad:
                _viol(res, "C03", f"{case.name}/{tdir}:driver:{which}", f"cusparse Naunet::{which} {bad}", {"case": case.name, "target": tdir, "call": which, "nsystem": nsystem, "trace": {k: str(v)[:300] for k, v in o.items()}, "replay_note": "call sequence read from the symbolic execution of the compiled naunet.cpp (all set-up calls succeeding)"})
            else:
                _ok(res, "C03")


def _c03_target(case, p, meta, tdir, res, fex, jac, J, structural, q, NEQ, NNZ, NR, NH, NC, tag, kind):
    if kind == "cusparse" and NNZ:
        _c03_driver(case, p, tdir, res, NEQ, NNZ, tag)
    if kind in ("dense", "sparse") and NNZ and (case.name.startswith(("N1", "U3", "B-minimal")) or "thermal" in case.tags):
        _c03_cpu_driver(case, p, tdir, res, NEQ, NNZ, tag, kind)
    # (c) bounds: every access of Fex and Jac stayed inside the declared sizes
    for run, nm in ((fex, "Fex"), (jac, "Jac")):
        if run is None:
            continue
        if not run.oob:
            _ok(res, "C03")
        for cond, what in run.oob:
            r, _ = q.sat(cond)
            if r != "unsat":
                _viol(res, "C03", f"{tag}:{nm}:oob:{what[:60]}", f"{nm} accesses memory outside the declared sizes: {what}", {"case": case.name, "target": tdir, "access": what, "replay_note": "offsets are concrete in the compiled IR; the access is unconditional or its guard is satisfiable"})
        for note in run.notes:
            if "rate array has" in note:
                _viol(res, "C03", f"{tag}:{nm}:ksize", f"{nm}: {note}", {"case": case.name, "target": tdir})
    for s in structural:
        _viol(res, "C03", f"{tag}:structure:{s[:50]}", f"Jacobian structure: {s}", {"case": case.name, "target": tdir})
    # rates / renorm / physics helpers in exactly-sized buffers
    try:
        rr = ode.run_rates(p, tdir, sentinel=False)
        if not rr.compile_errors:
            res["functions"].append(f"{tdir}:EvalRates")
            if not rr.oob:
                _ok(res, "C03")
            for cond, what in rr.oob:
                r, _ = q.sat(cond)
                if r != "unsat":
                    _viol(res, "C03", f"{tag}:EvalRates:oob:{what[:60]}", f"EvalRates accesses memory outside the declared sizes: {what}", {"case": case.name, "target": tdir, "access": what})
    except Inconclusive as e:
        _unk(res, "C03", f"{tag}:EvalRates:bounds", e)
    # (b) CSR validity
    if kind in ("sparse", "cusparse"):
        rp, cv = jac.rowptrs, jac.colvals
        if kind == "cusparse":
            if jac.rowptr_size != NEQ + 1:
                _viol(res, "C03", f"{tag}:rowptrs-size", f"rowptrs has {jac.rowptr_size} cells, NEQUATIONS+1={NEQ + 1}", {"case": case.name})
            if jac.colval_size != max(NNZ, 0) and not (NNZ == 0):
                _viol(res, "C03", f"{tag}:colvals-size", f"colvals has {jac.colval_size} cells, NNZ={NNZ}", {"case": case.name})
        if rp is not None and cv is not None and all(isinstance(v, int) for v in rp) and all(isinstance(v, int) for v in cv):
            _csr_valid(case, res, q, rp, cv, NEQ, NNZ, tag, tdir)
        elif not structural:
            _unk(res, "C03", f"{tag}:csr", "CSR arrays not concrete")
    # (b'') cusparse: two systems walked by one thread -- every system owns its own block of NNZ values: all 2*NNZ cells
    #       are written, nothing outside, and the first block still holds the first system's values afterwards
    if kind == "cusparse" and NNZ and jac is not None and not jac.compile_errors and getattr(jac, "data_vals", None):
        _c03_two_blocks(case, p, tdir, res, jac, q, NEQ, NNZ, tag)
    # (b') the second evaluation on the same matrix (after SUNMatZero, as CVODE does before every evaluation) leaves
    #      the same CSR arrays and solver-equal values as the first
    if kind == "sparse" and NNZ and jac is not None and not jac.compile_errors:
        _c03_second_call(case, p, tdir, res, q, NEQ, NNZ, tag)
    # (d) pattern file
    pf = os.path.join(p.tdir(tdir), "jac_pattern.dat")
    if os.path.exists(pf) and J is not None:
        rows = [l.split() for l in open(pf).read().splitlines() if l.strip()]
        pat = {(r, c) for r, row in enumerate(rows) for c, v in enumerate(row) if v != "0"}
        shape_ok = len(rows) == NEQ and all(len(r) == NEQ for r in rows)
        if not shape_ok:
            _viol(res, "C03", f"{tag}:pattern-shape", f"jac_pattern.dat is not {NEQ}x{NEQ}", {"case": case.name})
        elif pat != set(J.keys()):
            diff = sorted(pat ^ set(J.keys()))[:5]
            _viol(res, "C03", f"{tag}:pattern", f"jac_pattern.dat marks different entries than the Jacobian stores, e.g. {diff}", {"case": case.name, "target": tdir, "diff": diff})
        else:
            _ok(res, "C03")


def _c01_numdens(case, p, tdir, res, q, NEQ, NS, tag):
    from . import harness as H
    from .irsym import Ptr, State

    name = f"{tag}:GetNumDens"
    L = ode.load_physics(p, tdir)
    if L.errors:
        tu, err = next(iter(L.errors.items()))
        _unk(res, "C01", f"{name}:compile", f"{tu}: " + next((l for l in err.splitlines() if "error:" in l), err[:160])[-160:])
        return
    try:
        fn = L.find(r"^GetNumDens\(")
    except Exception as ex:
        _unk(res, "C01", name, f"no GetNumDens in the emitted physics source: {str(ex)[:100]}")
        return
    res["functions"].append(f"{tdir}:GetNumDens")
    yv = [z3.Real(f"nd_y{i}") for i in range(NEQ)]
    st = State()
    H.make_array(st, "v", NEQ, yv)
    try:
        _, v = L.M.run_function(fn, st, [Ptr("v", 0)])
    except Inconclusive as ex:
        _unk(res, "C01", name, str(ex)[:160])
        return
    ref = z3.RealVal(0)
    for i in range(NS):
        ref = ref + yv[i]
    r, m = q.differs(v, ref)
    if r == "unsat":
        _ok(res, "C01")
    elif r == "sat":
        pt = {str(d): str(m[d]) for d in m.decls()[:12]} if m is not None else {}
        _viol(res, "C01", name, f"the particle density of the temperature equation, GetNumDens(y) = {str(z3.simplify(R(v)))[:200]}, is not the sum of the {NS} species abundances", {"case": case.name, "target": tdir, "model": pt, "spec": _small_spec(case),
              "replay_note": "linear identity over the compiled helper of the emitted naunet_physics source; the summation bound is visible there"})
    else:
        _unk(res, "C01", name, r)


def _c01_second_call(case, p, tdir, res, fex, q, NEQ, tag):
    """Fex executed twice on one interpreter state (statics and globals persist), the second time with other
    abundances and a derivative buffer that still holds old values: every slot is assigned again and equals the
    first evaluation's term with the new abundances substituted"""
    name = f"{tag}:second-call"
    try:
        f2 = ode.run_fex(p, tdir, second_call=True)
    except Inconclusive as e:
        _unk(res, "C01", name, str(e)[:200])
        return
    if f2.compile_errors or not getattr(f2, "first_ydot", None):
        return
    # EvalRates writes a coefficient only inside its reaction's temperature window and relies on the caller's zeroed
    # array: an array that is zeroed once per process (function-local static) carries the previous call's rates
    stale = [n for n in f2.notes if "not zero-initialised" in n]
    if stale:
        _viol(res, "C01", f"{name}:rate-array", f"in its second evaluation the right-hand side hands EvalRates a rate array that still holds the first evaluation's coefficients ({stale[0]}): a reaction outside its temperature window contributes with a stale rate",
              {"case": case.name, "target": tdir, "spec": _small_spec(case), "replay_note": "state of the rate array at the second call of the compiled right-hand side on one interpreter state"})
        return
    _ok(res, "C01")
    sub = list(zip(f2.y, f2.y2))
    for i in range(NEQ):
        a, b = f2.first_ydot[i], f2.ydot[i]
        if a is None or b is None:
            continue
        if not is_sym(a):
            want = R(a)
        else:
            want = z3.substitute(R(a), *[(x, y_) for x, y_ in sub])
        r, m = q.differs(b, want)
        if r == "unsat":
            _ok(res, "C01")
        elif r == "sat":
            stale = "stale_ydot" in str(z3.simplify(R(b)))
            _viol(res, "C01", f"{name}:ydot[{i}]", f"second evaluation of the right-hand side (same process, other abundances) gives for slot {i} {str(z3.simplify(R(b)))[:200]}, not the first evaluation's law at the new abundances {str(z3.simplify(want))[:200]}" + (" (the slot keeps what the buffer held)" if stale else ""),
                  {"case": case.name, "target": tdir, "slot": i, "spec": _small_spec(case), "replay_note": "terms of two consecutive executions of the compiled right-hand side on one state"})
            return
        else:
            _unk(res, "C01", f"{name}:ydot[{i}]", r)
            return


def _c03_two_blocks(case, p, tdir, res, jac, q, NEQ, NNZ, tag):
    name = f"{tag}:two-systems:block-layout"
    try:
        j2 = ode.run_jac(p, tdir, nsystem=2)
    except Inconclusive as e:
        _unk(res, "C03", name, str(e)[:200])
        return
    if j2.compile_errors or not getattr(j2, "data_vals", None) or len(j2.data_vals) != 2 * NNZ:
        _unk(res, "C03", name, "two-system run not available")
        return
    bad = None
    for cond, what in j2.oob:
        r, _ = q.sat(cond)
        if r != "unsat":
            bad = f"the kernel accesses memory outside the 2 x NNZ values of a two-system batch: {what}"
            break
    if bad is None:
        missing = [k for k, v in enumerate(j2.data_vals) if v is None]
        if missing:
            bad = f"value cells {missing[:6]}{'...' if len(missing) > 6 else ''} of the two-system batch (2 x NNZ = {2 * NNZ}) are never written"
    if bad is None:
        for k in range(NNZ):
            a, b = j2.data_vals[k], jac.data_vals[k]
            if a is None or b is None:
                continue
            r, m = q.differs(a, b)
            if r == "sat":
                bad = f"after the second system was evaluated, value {k} of the first system's block differs from the single-system evaluation (blocks overlap)"
                break
            if r != "unsat":
                _unk(res, "C03", f"{name}:data[{k}]", r)
                return
    if bad:
        _viol(res, "C03", name, f"cusparse JacKernel, two systems: {bad}", {"case": case.name, "target": tdir, "NNZ": NNZ, "NEQUATIONS": NEQ, "spec": _small_spec(case), "replay_note": "terms / events of the compiled JacKernel run by one thread over two systems"})
    else:
        _ok(res, "C03")


def _c03_second_call(case, p, tdir, res, q, NEQ, NNZ, tag):
    try:
        j2 = ode.run_jac(p, tdir, second_call=True)
    except Inconclusive as e:
        _unk(res, "C03", f"{tag}:second-call", str(e)[:200])
        return
    if j2.compile_errors or not getattr(j2, "first", None):
        _unk(res, "C03", f"{tag}:second-call", "Jacobian does not compile / no first call recorded")
        return
    name = f"{tag}:second-call"
    f = j2.first
    bad = None
    if list(j2.rowptrs) != list(f["rowptrs"]) or list(j2.colvals) != list(f["colvals"]):
        k_ = next((i for i, (a, b) in enumerate(zip(list(j2.rowptrs) + list(j2.colvals), list(f["rowptrs"]) + list(f["colvals"]))) if str(a) != str(b)), None)
        bad = f"index arrays after the second evaluation differ from the first (rowptrs[{NEQ}] = {j2.rowptrs[NEQ]}, first call {f['rowptrs'][NEQ]}; first difference at flat position {k_})"
    else:
        for i in range(NNZ):
            a, b = j2.data_vals[i], f["data"][i]
            if a is None or b is None:
                if a is not b:
                    bad = f"data[{i}] is written by one evaluation only"
                    break
                continue
            r, m = q.differs(a, b)
            if r == "sat":
                bad = f"data[{i}] differs between the first and the second evaluation for equal inputs"
                break
            if r != "unsat":
                _unk(res, "C03", f"{name}:data[{i}]", r)
                return
    if bad is None:
        _ok(res, "C03")
        return
    # native confirmation: the replay binary evaluates twice on one matrix with the arrays cleared in between
    detail = {"case": case.name, "target": tdir, "spec": _small_spec(case)}
    try:
        n = native.NativeEval(p, tdir)
        macros = p.macros(tdir)
        out = n.eval([1.0 + 0.25 * i for i in range(NEQ)], k=[0.5 + 0.125 * i for i in range(macros["NREACTIONS"])], kh=[0.25] * macros.get("NHEATPROCS", 0), kc=[0.125] * macros.get("NCOOLPROCS", 0))
        same = out.get("rowptr2") == out["rowptr"] and all(out["csr2"][i][0] == out["csr"][i][0] and native.close(out["csr2"][i][1], out["csr"][i][1]) for i in out["csr"])
        detail["native"] = {"rowptr_first": out["rowptr"], "rowptr_second": out.get("rowptr2"), "csr_first": {i: list(v) for i, v in list(out["csr"].items())[:12]}, "csr_second": {i: list(v) for i, v in list(out.get("csr2", {}).items())[:12]}}
        if same:
            _unk(res, "C03", name, f"symbolic execution says: {bad}; the native build evaluates identically twice")
            res["errors"].append(f"{name}: non-reproducing counterexample")
            return
    except native.NativeError as e:
        detail["native_error"] = str(e)[:300]
    _viol(res, "C03", name, f"sparse Jacobian, evaluated a second time on the same matrix after SUNMatZero: {bad}", detail)


def _csr_valid(case, res, q, rp, cv, NEQ, NNZ, tag, tdir):
    """array-theory queries with a symbolic row r and position p"""
    A = z3.K(z3.IntSort(), z3.IntVal(0))
    RP = A
    for i, v in enumerate(rp):
        RP = z3.Store(RP, i, v)
    CV = A
    for i, v in enumerate(cv):
        CV = z3.Store(CV, i, v)
    r_, p_ = z3.Int("row"), z3.Int("pos")
    inrow = z3.And(0 <= r_, r_ < NEQ)
    bad = z3.Or(
        RP[0] != 0,
        RP[NEQ] != NNZ,
        z3.IntVal(len(cv)) != NNZ,
        z3.And(inrow, RP[r_] > RP[r_ + 1]),
        z3.And(inrow, RP[r_] <= p_, p_ < RP[r_ + 1], z3.Or(CV[p_] < 0, CV[p_] >= NEQ)),
        z3.And(inrow, RP[r_] <= p_, p_ + 1 < RP[r_ + 1], CV[p_] >= CV[p_ + 1]),
    )
    r, m = q.sat(bad)
    if r == "unsat":
        _ok(res, "C03")
        if len(_ob(res, "C03")["samples"]) < 2:
            _ob(res, "C03")["samples"].append({"obligation": f"{tag}:CSR-valid", "rowptrs": rp[:12], "colvals": cv[:12], "query": "exists row,pos violating CSR well-formedness", "verdict": "unsat"})
    elif r == "sat":
        _viol(res, "C03", f"{tag}:csr-invalid", f"CSR arrays are not well formed (row {m.eval(r_)}, position {m.eval(p_)}): rowptrs={rp[:10]}..., colvals={cv[:10]}..., NNZ={NNZ}", {"case": case.name, "target": tdir, "rowptrs": rp, "colvals": cv, "NNZ": NNZ, "replay_note": "arrays are literal constants of the emitted source"})
    else:
        _unk(res, "C03", f"{tag}:csr", r)


def _c03_agree(case, p, res, jac_terms):
    """same value at the same (row, col) in every layout"""
    q = Q()
    names = sorted(jac_terms)
    base = names[0]
    if jac_terms[base] is None:
        return
    for other in names[1:]:
        if jac_terms[other] is None:
            continue
        a, b = jac_terms[base], jac_terms[other]
        keys = set(a) | set(b)
        bad = 0
        for k in sorted(keys):
            ea, eb = a.get(k, Fraction(0)), b.get(k, Fraction(0))
            if ea is None or eb is None:
                continue
            if (k in a) != (k in b):
                _viol(res, "C03", f"{case.name}:{base}~{other}:{k}:presence", f"entry {k} is stored by {base if k in a else other} but not by {other if k in a else base}", {"case": case.name, "entry": list(k)})
                bad += 1
                continue
            r, m = q.differs(ea, eb)
            if r == "unsat":
                _ok(res, "C03")
            elif r == "sat":
                _viol(res, "C03", f"{case.name}:{base}~{other}:{k}", f"layouts disagree at {k}: {base}={z3.simplify(R(ea))} vs {other}={z3.simplify(R(eb))}", {"case": case.name, "entry": list(k), "replay_note": "both terms come from executing the compiled code; see C02 replays for the native confirmation"})
                bad += 1
            else:
                _unk(res, "C03", f"{case.name}:{base}~{other}:{k}", r)
    res["solver_s"] += q.time


# --------------------------------------------------------------------------- C04
def _c04(case, p, meta, tdir, res, fex, q, slots, NS, tag):
    if "balanced" not in case.tags:
        return
    sp = meta["species"]
    comp = getattr(case, "composition", None)

    def counts(s):
        """(element counts, charge) of a species: the corpus' hand-written table, not the generator's parser"""
        if comp is not None:
            ec, ch = comp[case.canon(s["name"])]
            return dict(ec), ch
        return ({} if s["is_electron"] else dict(s["element_count"])), s["charge"]

    elems = sorted({e for s in sp for e in counts(s)[0]})
    unassigned = [s["name"] for s in sp if fex.ydot[slots[case.canon(s["name"])]] is None]
    if unassigned:
        # a derivative that is never written keeps whatever the integrator's buffer held: no total is conserved
        _viol(res, "C04", f"{tag}:conserve:unassigned-derivative", f"the generated right-hand side never assigns the derivative of {unassigned[:4]}: the element and charge totals of the derivatives contain whatever the buffer held",
              {"case": case.name, "target": tdir, "species": unassigned, "spec": _small_spec(case), "replay_note": "no store to these slots in the compiled right-hand side (the integrators do not clear the buffer)"})
        return
    for e in elems + ["$charge"]:
        tot = z3.RealVal(0)
        for s in sp:
            ec, ch = counts(s)
            c = ch if e == "$charge" else ec.get(e, 0)
            if c:
                tot = tot + c * R(fex.ydot[slots[case.canon(s["name"])]])
        r, m = q.differs(tot, z3.RealVal(0))
        name = f"{tag}:conserve:{e}"
        if r == "unsat":
            _ok(res, "C04")
            if len(_ob(res, "C04")["samples"]) < 2:
                _ob(res, "C04")["samples"].append({"obligation": name, "query": f"sum_s count_{e}(s) * ydot_s != 0", "verdict": "unsat"})
        elif r == "sat":
            _viol(res, "C04", name, f"generated dynamics do not conserve {e} although every input reaction does", {"case": case.name, "target": tdir, "element": e, "spec": _small_spec(case)})
        else:
            _unk(res, "C04", name, r)
    _c04_helper(case, p, meta, tdir, res, q, slots, NS, tag, counts)


def _c04_as_read(case, meta, res):
    """side obligation (concrete, one per reaction): the network the generator holds after reading a balanced
    input is still balanced by the corpus' hand-written composition table, and every species it mentions is in
    that table.  An input species silently dropped while the reaction is constructed unbalances the dynamics
    before any code is emitted (and can leave emitted code that does not compile, where the solver obligations
    have nothing to work on)."""
    comp = case.composition
    for i, r in enumerate(meta["reactions"]):
        name = f"{case.name}:as-read:reaction[{i}]"
        tot, q, unknown = {}, 0, []
        for sign, names in ((1, r["reactants"]), (-1, r["products"])):
            for n in names:
                c = comp.get(case.canon(n))
                if c is None:
                    unknown.append(n)
                    continue
                q += sign * c[1]
                for e, k in c[0].items():
                    tot[e] = tot.get(e, 0) + sign * k
        bad = {e: k for e, k in tot.items() if k}
        if unknown:
            _viol(res, "C04", name, f"reaction {i} as held by the network mentions {unknown}, not a species of the balanced input", {"case": case.name, "reaction_as_read": r, "spec": _small_spec(case)})
        elif bad or q:
            _viol(res, "C04", name, f"reaction {i} of a balanced input is held by the network as {' + '.join(r['reactants'])} -> {' + '.join(r['products'])}: unbalanced in {bad or ''}{' charge' if q else ''}",
                  {"case": case.name, "reaction_as_read": r, "imbalance": {"elements": bad, "charge": q}, "spec": _small_spec(case), "replay_note": "Network built from the spec; print its reaction_list"})
        else:
            _ok(res, "C04")


def _c04_helper(case, p, meta, tdir, res, q, slots, NS, tag, counts):
    """GetElementAbund of the emitted naunet_physics.cpp, executed symbolically on an arbitrary abundance
    vector, equals the count-weighted sum of abundances (counts from the corpus table)."""
    from . import harness as H
    from .irsym import Ptr, State

    macros = p.macros(tdir)
    els = [next(iter(el["element_count"])) for el in meta["elements"]]
    if not els:
        return
    L = ode.load_physics(p, tdir)
    if L.errors:
        tu, err = next(iter(L.errors.items()))
        _unk(res, "C04", f"{tag}:GetElementAbund:compile", f"{tu}: " + next((l for l in err.splitlines() if "error:" in l), err[:160])[-160:])
        return
    res["functions"].append(f"{tdir}:GetElementAbund")
    ab = [z3.Real(f"ab{i}") for i in range(NS)]
    fn = L.find(r"^GetElementAbund\(")
    for en in els:
        name = f"{tag}:GetElementAbund[{en}]"
        if "IDX_ELEM_" + en not in macros:
            _viol(res, "C04", name, f"no index macro IDX_ELEM_{en} for element {en}", {"case": case.name, "target": tdir})
            continue
        st = State()
        H.make_array(st, "v", NS, ab)
        try:
            _, v = L.M.run_function(fn, st, [Ptr("v", 0), macros["IDX_ELEM_" + en]])
        except Inconclusive as ex:
            _unk(res, "C04", name, str(ex)[:160])
            continue
        ref = z3.RealVal(0)
        for s in meta["species"]:
            c = counts(s)[0].get(en, 0)
            if c:
                ref = ref + c * ab[slots[case.canon(s["name"])]]
        r, m = q.differs(v, ref)
        if r == "unsat":
            _ok(res, "C04")
            if sum(1 for x in _ob(res, "C04")["samples"] if "GetElementAbund" in x["obligation"]) < 1:
                _ob(res, "C04")["samples"].append({"obligation": name, "query": "GetElementAbund(ab, e) != sum_s count_e(s) * ab_s", "emitted": str(z3.simplify(R(v)))[:200], "verdict": "unsat"})
        elif r == "sat":
            pt = {str(d): str(m[d]) for d in m.decls()[:12]} if m is not None else {}
            _viol(res, "C04", name, f"GetElementAbund({en}) = {str(z3.simplify(R(v)))[:160]} is not the count-weighted sum of abundances {str(z3.simplify(ref))[:160]}", {"case": case.name, "target": tdir, "element": en, "model": pt, "spec": _small_spec(case), "replay_note": "linear identity over the compiled helper; differing coefficients are visible in emitted naunet_physics.cpp"})
        else:
            _unk(res, "C04", name, r)
