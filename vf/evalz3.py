"""Evaluate a z3 real/int/bool term at a concrete point with libm semantics for
the uninterpreted functions the harness introduces (exp, log, pow, recip, ...)."""
from __future__ import annotations

import math
from fractions import Fraction

import z3

LIBM = {
    "exp": math.exp, "log": math.log, "log10": math.log10, "sqrt": math.sqrt, "cbrt": lambda x: math.copysign(abs(x) ** (1 / 3), x),
    "erf": math.erf, "erfc": math.erfc, "tanh": math.tanh, "sinh": math.sinh, "cosh": math.cosh, "sin": math.sin, "cos": math.cos,
    "tan": math.tan, "atan": math.atan, "asin": math.asin, "acos": math.acos, "asinh": math.asinh, "acosh": math.acosh, "atanh": math.atanh, "log2": math.log2, "floor": math.floor, "ceil": math.ceil,
    "recip": lambda x: 1.0 / x, "pow": math.pow, "atan2": math.atan2, "fmod": math.fmod, "pow10": lambda x: 10.0 ** x,
}


class EvalError(Exception):
    pass


def evalf(t, env, extra=None):
    """env: {symbol name: float}; returns float / bool"""
    cache = {}
    fns = dict(LIBM)
    if extra:
        fns.update(extra)

    def go(e):
        k = e.get_id()
        if k in cache:
            return cache[k]
        v = _go(e)
        cache[k] = v
        return v

    def _go(e):
        if z3.is_rational_value(e):
            return e.numerator_as_long() / e.denominator_as_long()
        if z3.is_int_value(e):
            return float(e.as_long())
        if z3.is_true(e):
            return True
        if z3.is_false(e):
            return False
        d = e.decl()
        kind = d.kind()
        ch = e.children()
        if kind == z3.Z3_OP_UNINTERPRETED:
            name = d.name()
            if not ch:
                if name not in env:
                    raise EvalError(f"no value for {name}")
                return env[name]
            if name in fns:
                try:
                    return fns[name](*[go(c) for c in ch])
                except (ValueError, OverflowError, ZeroDivisionError):
                    return float("nan")
            raise EvalError(f"uninterpreted function {name}")
        if kind == z3.Z3_OP_ADD:
            return sum(go(c) for c in ch)
        if kind == z3.Z3_OP_MUL:
            r = 1.0
            for c in ch:
                r *= go(c)
            return r
        if kind == z3.Z3_OP_SUB:
            r = go(ch[0])
            for c in ch[1:]:
                r -= go(c)
            return r
        if kind == z3.Z3_OP_UMINUS:
            return -go(ch[0])
        if kind == z3.Z3_OP_DIV:
            a, b = go(ch[0]), go(ch[1])
            return a / b if b != 0 else float("nan")
        if kind == z3.Z3_OP_ITE:
            return go(ch[1]) if go(ch[0]) else go(ch[2])
        if kind == z3.Z3_OP_TO_REAL:
            return float(go(ch[0]))
        if kind == z3.Z3_OP_LE:
            return go(ch[0]) <= go(ch[1])
        if kind == z3.Z3_OP_LT:
            return go(ch[0]) < go(ch[1])
        if kind == z3.Z3_OP_GE:
            return go(ch[0]) >= go(ch[1])
        if kind == z3.Z3_OP_GT:
            return go(ch[0]) > go(ch[1])
        if kind == z3.Z3_OP_EQ:
            return go(ch[0]) == go(ch[1])
        if kind == z3.Z3_OP_DISTINCT:
            return go(ch[0]) != go(ch[1])
        if kind == z3.Z3_OP_AND:
            return all(go(c) for c in ch)
        if kind == z3.Z3_OP_OR:
            return any(go(c) for c in ch)
        if kind == z3.Z3_OP_NOT:
            return not go(ch[0])
        if kind == z3.Z3_OP_POWER:
            return go(ch[0]) ** go(ch[1])
        raise EvalError(f"operator {d.name()}")

    try:
        return go(z3.simplify(t, som=False))  # n-ary sums/products: shallow recursion
    except RecursionError:
        raise EvalError("term too deep to evaluate")
