"""The network corpus: the enumerated bound on the 'all networks' quantifier.

Every member is an *abstract network* (what is fed to the generator) from which
the reference mass-action law is built independently of the generator.
"""
from __future__ import annotations

import itertools
import os
import random

from .paths import REPO
PSEUDO = ["CR", "CRP", "XRAY", "Photon", "PHOTON", "CRPHOT"]


class Case:
    def __init__(self, name, spec, ref="fed", pseudo=None, tags=(), canon=None):
        self.name, self.spec, self.ref, self.tags = name, spec, ref, set(tags)
        self.pseudo = set(PSEUDO if pseudo is None else pseudo)
        self.canon = canon or default_canon

    def with_targets(self, targets):
        s = dict(self.spec)
        s["targets"] = [dict(t) for t in targets]
        return s


def default_canon(name):
    """spelling-independent identity of a species name (oracle side)"""
    if name.upper() in ("E", "E-"):
        return "e-"
    return name


def rx(r, p, t=100, a=1.0, b=0.0, c=0.0, tmin=-1.0, tmax=-1.0, idx=-1):
    return {"reactants": list(r), "products": list(p), "reaction_type": t, "alpha": a, "beta": b, "gamma": c, "temp_min": tmin, "temp_max": tmax, "idxfromfile": idx}


def multisets(pool, lo, hi):
    for n in range(lo, hi + 1):
        yield from itertools.combinations_with_replacement(pool, n)


def n0_n1():
    out = []
    out.append(Case("N0-empty", {"reactions_empty_list": True, "network": {}}, tags={"empty"}))
    out.append(Case("N0-empty-required", {"reactions_empty_list": True, "network": {"required_species": ["H", "He"]}}, tags={"empty"}))
    out.append(Case("N1-arity1", {"reactions": [rx(["H2"], ["H", "H"])], "network": {}}))
    out.append(Case("N1-arity2", {"reactions": [rx(["H", "H"], ["H2"])], "network": {}}))
    out.append(Case("N1-arity3", {"reactions": [rx(["H", "H", "H"], ["H2", "H"])], "network": {}}))
    out.append(Case("N1-noproduct", {"reactions": [rx(["H", "C"], [])], "network": {}}))
    out.append(Case("N1-required", {"reactions": [rx(["H", "H"], ["H2"])], "network": {"required_species": ["He", "C"]}}))
    # required species that also react (same spelling, the other electron spelling, listed twice) next to one that does not
    out.append(Case("N1-required-overlap", {"reactions": [rx(["H", "H"], ["H2"]), rx(["H", "e-"], ["H-"]), rx(["H2", "CR"], ["H", "H"], t=101)], "network": {"required_species": ["H2", "E", "He", "H2"]}}))
    out.append(Case("N1-catalyst", {"reactions": [rx(["H", "C"], ["H", "O"]), rx(["O"], ["C"])], "network": {}}))
    # three-body reactions among species with long names: one term of the emitted statements is wider than a source line
    out.append(Case("N1-long-names", {"reactions": [rx(["CH3CH2OCH2CH2OH", "CH3OCH2CH2OCH3", "HOCH2CH2OCH2CH2OH"], ["CH3CH2OCH2CH2OH", "CH3OCH2CH2OCH3+", "HOCH2CH2OCH2CH2OH", "e-"]),
                                                    rx(["CH3OCH2CH2OCH3+", "e-", "HOCH2CH2OCH2CH2OH"], ["CH3OCH2CH2OCH3", "HOCH2CH2OCH2CH2OH"]), rx(["CH3CH2OCH2CH2OH", "CH3CH2OCH2CH2OH", "CH3OCH2CH2OCH3+"], ["HOCH2CH2OCH2CH2OH", "CH3OCH2CH2OCH3+"])], "network": {}}))
    # a real species whose name differs from a pseudo element only by case (chromium Cr / cosmic ray CR; Xe would do for X...)
    out.append(Case("N1-pseudo-lookalike", {"reactions": [rx(["Cr", "H+"], ["Cr+", "H"]), rx(["Cr+", "e-"], ["Cr"]), rx(["H2", "CR"], ["H", "H"], t=101), rx(["Cr", "CR"], ["Cr+", "e-"], t=101), rx(["Cr", "Cr", "H"], ["Cr", "Cr+", "H", "e-"])],
                                            "network": {"elements": "e,E,H,D,He,C,N,O,F,Na,Mg,Al,Si,P,S,Cl,Ar,Ca,Cr,Fe,Ni".split(","), "pseudo_elements": "CR,CRP,XRAY,Photon,PHOTON,CRPHOT,X,M,p,o,m,c-,l-,\\*,g".split(",")}}))
    out.append(Case("N1-pseudo", {"reactions": [rx(["H2", "CR"], ["H", "H"], t=101), rx(["CO", "PHOTON"], ["C", "O"], t=102, c=2.0), rx(["H", "CRPHOT"], ["H+", "e-"], t=120, c=1.0), rx(["H", "Photon"], ["H+", "E"], t=102)], "network": {}}))
    return out


def u3(variant="plain"):
    A = ["H", "C", "O"]
    rs = []
    k = 0
    for r in multisets(A, 1, 3):
        for p in multisets(A, 0, 5):
            r2 = list(r)
            if variant == "pseudo":
                r2 = r2 + [PSEUDO[k % len(PSEUDO)]]
            rs.append(rx(r2, p))
            if variant == "dup":
                rs.append(rx(list(reversed(r2)), list(reversed(p))))
            k += 1
    return Case(f"U3-{variant}", {"reactions": rs, "network": {}}, tags={"u3"})


U5_POOL = ["H", "H+", "H-", "e-", "E", "He++", "#H", "#CO", "GRAIN0", "GRAIN-", "oH2", "pH2D+", "CO", "Si"]


def u5(seed=0, n=400):
    rnd = random.Random(1000 + seed)
    rs = []
    # every ordered pair appears as reactants at least once
    for a, b in itertools.combinations_with_replacement(U5_POOL, 2):
        np_ = rnd.randint(0, 3)
        rs.append(rx([a, b], [rnd.choice(U5_POOL) for _ in range(np_)]))
    for a in U5_POOL:
        rs.append(rx([a], [rnd.choice(U5_POOL) for _ in range(rnd.randint(1, 3))]))
    while len(rs) < n:
        nr = rnd.randint(1, 2)
        rs.append(rx([rnd.choice(U5_POOL) for _ in range(nr)], [rnd.choice(U5_POOL) for _ in range(rnd.randint(0, 3))]))
    return Case(f"U5-naming-{seed}", {"reactions": rs, "network": {}}, tags={"u5"})


R_POOL = ["H", "H+", "H-", "H2", "H2+", "H3+", "e-", "He", "He+", "C", "C+", "CH", "CH+", "CH2", "O", "O+", "OH", "OH+", "H2O", "H2O+", "H3O+", "CO", "CO+", "HCO+", "O2", "N", "N+", "N2", "NH", "CN", "HCN", "Si", "Si+", "SiO", "S", "S+", "CS", "Mg", "Mg+", "Fe", "Fe+", "D", "HD", "D+", "H2D+"]


def rnet(seed):
    rnd = random.Random(7000 + seed)
    ns = rnd.randint(5, 40)
    pool = rnd.sample(R_POOL, ns)
    nr = rnd.randint(10, 200)
    rs = []
    for i in range(nr):
        r = [rnd.choice(pool) for _ in range(rnd.choice([1, 2, 2, 2, 3]))]
        p = [rnd.choice(pool) for _ in range(rnd.choice([0, 1, 1, 2, 2, 2, 3, 4, 5]))]
        if rnd.random() < 0.15:
            r.append(rnd.choice(PSEUDO))
        rs.append(rx(r, p, idx=i if rnd.random() < 0.5 else -1))
    req = [s for s in rnd.sample(R_POOL, 3) if s not in pool][:2]
    return Case(f"R-{seed}", {"reactions": rs, "network": {"required_species": req}}, tags={"random"})


def bundled(thorough=False):
    out = []
    td = os.path.join(REPO, "tests", "data")
    ex = os.path.join(REPO, "naunet", "examples")
    out.append(Case("B-minimal.kida", {"network": {"filelist": f"{td}/minimal.kida", "fileformats": "kida"}}, ref="meta", tags={"bundled"}))
    out.append(Case("B-minimal.umist", {"network": {"filelist": f"{td}/minimal.umist", "fileformats": "umist"}}, ref="meta", tags={"bundled"}))
    out.append(Case("B-minimal.leeds", {"network": {"filelist": f"{td}/minimal.leeds", "fileformats": "leeds"}}, ref="meta", tags={"bundled"}))
    out.append(Case("B-minimal.krome", {"network": {"filelist": f"{td}/minimal.krome", "fileformats": "krome"}}, ref="meta", tags={"bundled"}))
    out.append(Case("B-minimal.ucl", {"network": {"filelist": f"{td}/minimal.ucl", "fileformats": "uclchem"}}, ref="meta", tags={"bundled"}))
    out.append(Case("B-duplicate.kida", {"network": {"filelist": f"{td}/duplicate.kida", "fileformats": "kida"}}, ref="meta", tags={"bundled"}))
    out.append(Case("B-multiduplicate.kida", {"network": {"filelist": f"{td}/multiduplicate.kida", "fileformats": "kida"}}, ref="meta", tags={"bundled"}))
    out.append(Case("B-primordial.krome", {"network": {"filelist": f"{ex}/primordial/primordial.krome", "fileformats": "krome", "elements": ["e", "H", "D", "He"], "pseudo_elements": ["Photon"]}}, ref="meta", pseudo=["Photon"], tags={"bundled"}))
    out.append(Case("B-example-minimal", {"network": {"filelist": f"{ex}/minimal/minimal.kida", "fileformats": "kida", "elements": ["H", "C"], "allowed_species": ["H", "C2", "C", "CH"]}}, ref="meta", tags={"bundled"}))
    out.append(Case("M-kida+krome", {"network": {"filelist": [f"{td}/minimal.kida", f"{td}/minimal.krome"], "fileformats": ["kida", "krome"]}}, ref="meta", tags={"bundled", "merged"}))
    out.append(Case("M-umist+leeds", {"network": {"filelist": [f"{td}/minimal.umist", f"{td}/minimal.leeds"], "fileformats": ["umist", "leeds"]}}, ref="meta", tags={"bundled", "merged"}))
    out.append(Case("M-umist-written-naunet", {"network": {"filelist": f"{td}/minimal.umist", "fileformats": "umist"}, "ops": [{"op": "write_read", "file": "rt.naunet", "format": "naunet"}]}, ref="meta", tags={"bundled", "merged"}))
    prim_cool = ["CIC_HI", "CIC_HeI", "CIC_HeII", "CIC_He_2S", "RC_HII", "RC_HeI", "RC_HeII", "RC_HeIII", "CEC_HI", "CEC_HeI", "CEC_HeII"]
    prim = {"filelist": f"{ex}/primordial/primordial.krome", "fileformats": "krome", "elements": ["e", "H", "D", "He"], "pseudo_elements": ["Photon"]}
    out.append(Case("T-primordial-cooling", {"network": dict(prim, cooling=prim_cool)}, ref="meta", pseudo=["Photon"], tags={"bundled", "thermal"}))
    # thermal processes registered by the user, with a single reactant (no built-in process has fewer than two)
    reg = ("from naunet import thermalprocess as tp\n"
           "tp.supported_cooling_process['USER_H2LINE'] = tp.ThermalProcess(['H2'], '1.0e-27 * sqrt(Temp)')\n"
           "tp.supported_cooling_process['USER_HLINE'] = tp.ThermalProcess(['H'], '2.0e-27')\n")
    out.append(Case("T-user-one-reactant", {"pre": [{"op": "exec", "code": reg}], "network": dict(prim, cooling=["CIC_HI", "USER_H2LINE", "USER_HLINE"])}, ref="meta", pseudo=["Photon"], tags={"bundled", "thermal"}))
    out.append(Case("T-primordial-cool2", {"network": dict(prim, cooling=["CIC_HI", "RC_HII"])}, ref="meta", pseudo=["Photon"], tags={"bundled", "thermal"}))
    # a network merged from two files that overlap: the second file holds another fit of a reaction of the first (same
    # species and window, other coefficients) and an exact repeat; every line of every file is a reaction of the network
    from . import encoders as _enc
    _l = lambda i, r, p_, a: {"reactants": r, "products": p_, "a": a, "b": "0.000e+00", "c": "0.000e+00", "tmin": "-1.00", "tmax": "-1.00", "idx": i, "code": 100}
    f1 = [_l(1, ["H", "H"], ["H2"], "1.000e-10"), _l(2, ["C", "H"], ["CH"], "2.000e-10"), _l(3, ["CH", "O"], ["CO", "H"], "3.000e-10")]
    f2 = [_l(4, ["H", "H"], ["H2"], "4.000e-10"), _l(5, ["CO"], ["C", "O"], "5.000e-10"), _l(6, ["C", "H"], ["CH"], "2.000e-10"), _l(7, ["O", "CH"], ["H", "CO"], "7.000e-10")]
    mo = Case("M-overlapping-files", {"files": [{"name": "a.naunet", "content": "\n".join(_enc.naunet(r) for r in f1) + "\n"}, {"name": "b.naunet", "content": "\n".join(_enc.naunet(r) for r in f2) + "\n"}],
                                      "network": {"filelist": ["a.naunet", "b.naunet"], "fileformats": ["naunet", "naunet"]}}, ref="fed", tags={"bundled"})
    mo.fed_lines = f1 + f2
    out.append(mo)
    # history in one process: the network is rendered (two layouts), then edited, then rendered again: the second set of
    # sources is that of the edited network (dimensions, right-hand side, every Jacobian layout)
    g2 = [_l(4, ["CO"], ["C", "O"], "5.000e-10"), _l(5, ["O", "H"], ["OH"], "6.000e-10"), _l(6, ["OH", "C"], ["CO", "H"], "7.000e-10")]
    first = ("from naunet.templateloader import TemplateLoader\nfrom pathlib import Path\n"
             "for m_ in ('dense', 'sparse'):\n    TemplateLoader('cvode', m_, 'cpu').render('naunet', net, path=Path('first_' + m_), save=True, jac_pattern=True)\n"
             "TemplateLoader('odeint', 'rosenbrock4', 'cpu').render('naunet', net, path=Path('first_odeint'), save=True)\n")
    he = Case("H-render-edit-render", {"files": [{"name": "a.naunet", "content": "\n".join(_enc.naunet(r) for r in f1) + "\n"}, {"name": "c.naunet", "content": "\n".join(_enc.naunet(r) for r in g2) + "\n"}],
                                       "network": {"filelist": ["a.naunet"], "fileformats": ["naunet"]},
                                       "ops": [{"op": "exec", "code": first}, {"op": "add_file", "file": "c.naunet", "format": "naunet"}]}, ref="fed", tags={"bundled"})
    he.fed_lines = f1 + g2
    out.append(he)
    hr = Case("H-render-remove-render", {"files": [{"name": "a.naunet", "content": "\n".join(_enc.naunet(r) for r in f1 + g2) + "\n"}],
                                         "network": {"filelist": ["a.naunet"], "fileformats": ["naunet"]},
                                         "ops": [{"op": "exec", "code": first + "net.remove_reaction([4, 5])\n"}]}, ref="fed", tags={"bundled"})
    hr.fed_lines = f1 + g2[:1]
    out.append(hr)
    if thorough:
        out.append(Case("B-rate12_HO.leeds", {"network": {"filelist": f"{td}/rate12_HO.leeds", "fileformats": "leeds"}}, ref="meta", tags={"bundled", "large"}))
        out.append(Case("B-deuterium.krome", {"network": {"filelist": f"{ex}/deuterium/deuterium.krome", "fileformats": "krome", "elements": ["e", "H", "D", "He", "C", "N", "O"], "pseudo_elements": ["o", "p", "m"]}}, ref="meta", pseudo=["o", "p", "m"], tags={"bundled", "large"}))
        out.append(Case("B-rate12.umist", {"network": {"filelist": f"{td}/rate12.umist", "fileformats": "umist"}}, ref="meta", tags={"bundled", "large", "huge"}))
    return out


def modifier_cases():
    """ODE-modifier shapes: 0..3 dependency species, repeated ones, several terms"""
    base = [rx(["H", "C"], ["CH"]), rx(["CH", "O"], ["CO", "H"]), rx(["CO"], ["C", "O"]), rx(["H", "H", "C"], ["CH", "H"])]
    shapes = {
        "dep1": {"H": {"factors": ["2.0"], "reactants": [["C"]]}},
        "dep2": {"H": {"factors": ["-2.0*Av"], "reactants": [["H", "C"]]}},
        "dep3": {"CO": {"factors": ["zeta"], "reactants": [["H", "C", "O"]]}},
        "dep2-repeated": {"CH": {"factors": ["0.5"], "reactants": [["H", "H"]]}},
        "dep3-repeated": {"C": {"factors": ["3.0"], "reactants": [["H", "H", "C"]]}},
        "two-terms": {"O": {"factors": ["1.5", "-0.25"], "reactants": [["H"], ["C", "CO"]]}},
        "two-species": {"H": {"factors": ["2.0"], "reactants": [["O"]]}, "C": {"factors": ["-4.0"], "reactants": [["CH", "O"]]}},
        "dep0": {"H": {"factors": ["1.0"], "reactants": [[]]}},
        # literals such as 100.0 / 10.0 inside a factor, next to + and - (the text "0.0 + " / "0.0 - " occurs inside it)
        "dep-literal-zero": {"H": {"factors": ["0.5 * (100.0 - Av) * zeta"], "reactants": [["C"]]}, "CO": {"factors": ["-(20.0 - 0.5*Av)"], "reactants": [["O"]]}},
        "dep-literal-zero-plus": {"H": {"factors": ["(10.0 + Av)", "2.0"], "reactants": [["H", "C"], ["O"]]}},
        # factors whose top-level operator binds weaker than '*' (the factor is one unit in every derivative)
        "dep2-sum-factor": {"H": {"factors": ["zeta - 2.0*Av"], "reactants": [["H", "C"]]}},
        "dep2-repeated-leading-minus": {"CH": {"factors": ["-zeta + Av"], "reactants": [["H", "H"]]}},
        "dep3-quotient-sum": {"CO": {"factors": ["zeta/2.0 + Av", "Av - zeta"], "reactants": [["H", "C", "O"], ["O", "CH"]]}},
    }
    out = []
    for nm, mod in shapes.items():
        out.append(Case(f"MOD-{nm}", {"reactions": base, "network": {"ode_modifier": mod}}, tags={"modifier", "selfcheck"}))
    # modifiers together with the thermal equation (n_eqns = n_spec + 1) on a bundled network
    ex = os.path.join(REPO, "naunet", "examples")
    prim = {"filelist": f"{ex}/primordial/primordial.krome", "fileformats": "krome", "elements": ["e", "H", "D", "He"], "pseudo_elements": ["Photon"], "cooling": ["CIC_HI", "RC_HII", "CEC_HeI"]}
    tmods = {
        "thermal-dep1": {"H2": {"factors": ["2.0"], "reactants": [["H"]]}, "He+": {"factors": ["-1.0"], "reactants": [["He"]]}},
        "thermal-dep2": {"H+": {"factors": ["0.5"], "reactants": [["H", "e-"]]}, "HD": {"factors": ["3.0", "-2.0"], "reactants": [["H", "D"], ["H2", "D+"]]}},
        "thermal-dep3": {"e-": {"factors": ["1.5"], "reactants": [["H", "H", "He"]]}, "D": {"factors": ["-0.5"], "reactants": [["H2+", "e-", "e-"]]}},
    }
    for nm, mod in tmods.items():
        out.append(Case(f"MOD-{nm}", {"network": dict(prim, ode_modifier=mod)}, ref="meta", pseudo=["Photon"], tags={"modifier", "thermal", "selfcheck"}))
    # rate modifiers keyed by database indices far above the number of reactions (the subscripts of k[] must stay
    # positions in the network), on files with 1-based and with large indices
    td = os.path.join(REPO, "tests", "data")
    out.append(Case("RMOD-umist-file-index", {"network": {"filelist": f"{td}/minimal.umist", "fileformats": "umist", "rate_modifier": {"5367": "1.0e-9*Av"}}}, ref="meta", tags={"modifier", "ratemod"}))
    out.append(Case("RMOD-kida-last-index", {"network": {"filelist": f"{td}/minimal.kida", "fileformats": "kida", "rate_modifier": {"6599": "2.0e-10", "4894": "zeta"}}}, ref="meta", tags={"modifier", "ratemod"}))
    return out


def quick_corpus(seed=0):
    return n0_n1() + [u3("plain"), u5(seed), rnet(seed)] + bundled(False)


def thorough_corpus(seed=0):
    return n0_n1() + [u3("plain"), u3("pseudo"), u3("dup"), u5(seed), u5(seed + 1)] + [rnet(seed + i) for i in range(8)] + bundled(True)
