"""Balanced sub-corpus for C04: every reaction conserves each element and charge.

Enumerated small-scope: all reactions over a molecule pool with <=2 (quick) /
<=3 (thorough) reactants and <=3 / <=4 products whose element and charge
vectors balance (computed here, independently of naunet)."""
from __future__ import annotations

import itertools
import random

from .corpus import Case, rx

# name -> (element counts, charge); 'e-' and 'E' are two spellings of the electron
POOLS = {
    "HCO": {
        "H": ({"H": 1}, 0), "H+": ({"H": 1}, 1), "H-": ({"H": 1}, -1), "e-": ({}, -1), "H2": ({"H": 2}, 0), "H2+": ({"H": 2}, 1),
        "H3+": ({"H": 3}, 1), "C": ({"C": 1}, 0), "C+": ({"C": 1}, 1), "CH": ({"C": 1, "H": 1}, 0), "O": ({"O": 1}, 0),
        "OH": ({"O": 1, "H": 1}, 0), "H2O": ({"H": 2, "O": 1}, 0), "CO": ({"C": 1, "O": 1}, 0), "HCO+": ({"H": 1, "C": 1, "O": 1}, 1),
    },
    "spelling": {
        "H": ({"H": 1}, 0), "H+": ({"H": 1}, 1), "E": ({}, -1), "e-": ({}, -1), "He": ({"He": 1}, 0), "He+": ({"He": 1}, 1), "He++": ({"He": 1}, 2),
        "Si": ({"Si": 1}, 0), "Si+": ({"Si": 1}, 1), "SiO": ({"Si": 1, "O": 1}, 0), "O": ({"O": 1}, 0), "S": ({"S": 1}, 0), "SO": ({"S": 1, "O": 1}, 0),
    },
    "deut": {
        "H": ({"H": 1}, 0), "D": ({"D": 1}, 0), "H2": ({"H": 2}, 0), "HD": ({"H": 1, "D": 1}, 0), "oH2": ({"H": 2}, 0), "pH2": ({"H": 2}, 0),
        "H+": ({"H": 1}, 1), "D+": ({"D": 1}, 1), "oH2D+": ({"H": 2, "D": 1}, 1), "pH2D+": ({"H": 2, "D": 1}, 1), "oH3+": ({"H": 3}, 1), "e-": ({}, -1),
        "N2D+": ({"N": 2, "D": 1}, 1), "N2": ({"N": 2}, 0),
    },
    "ice": {
        "H": ({"H": 1}, 0), "#H": ({"H": 1}, 0), "CO": ({"C": 1, "O": 1}, 0), "#CO": ({"C": 1, "O": 1}, 0), "H2": ({"H": 2}, 0), "#H2": ({"H": 2}, 0),
        "#HCO": ({"H": 1, "C": 1, "O": 1}, 0), "HCO": ({"H": 1, "C": 1, "O": 1}, 0), "C": ({"C": 1}, 0), "O": ({"O": 1}, 0), "#O": ({"O": 1}, 0), "#OH": ({"O": 1, "H": 1}, 0),
    },
    # dust grains in three charge states (electron capture, ion recombination on grains)
    "grain": {
        "GRAIN0": ({"GRAIN": 1}, 0), "GRAIN-": ({"GRAIN": 1}, -1), "GRAIN--": ({"GRAIN": 1}, -2), "GRAIN+": ({"GRAIN": 1}, 1), "e-": ({}, -1), "C-": ({"C": 1}, -1), "C--": ({"C": 1}, -2), "H": ({"H": 1}, 0), "H+": ({"H": 1}, 1),
        "C": ({"C": 1}, 0), "C+": ({"C": 1}, 1), "H2": ({"H": 2}, 0), "CH": ({"C": 1, "H": 1}, 0), "CH+": ({"C": 1, "H": 1}, 1),
    },
    # formulas that mention an element symbol in several places (composition computed by hand)
    "repeat": {
        "H": ({"H": 1}, 0), "C": ({"C": 1}, 0), "O": ({"O": 1}, 0), "N": ({"N": 1}, 0), "H2": ({"H": 2}, 0), "OH": ({"O": 1, "H": 1}, 0),
        "CH3": ({"C": 1, "H": 3}, 0), "CH3OH": ({"C": 1, "H": 4, "O": 1}, 0), "HCOOH": ({"H": 2, "C": 1, "O": 2}, 0), "H2CCO": ({"H": 2, "C": 2, "O": 1}, 0),
        "NH2CHO": ({"N": 1, "H": 3, "C": 1, "O": 1}, 0), "CH3OH2+": ({"C": 1, "H": 5, "O": 1}, 1), "H+": ({"H": 1}, 1), "CO": ({"C": 1, "O": 1}, 0),
        "NH2": ({"N": 1, "H": 2}, 0), "HCO": ({"H": 1, "C": 1, "O": 1}, 0), "CH3OCH3": ({"C": 2, "H": 6, "O": 1}, 0), "#CH3OH": ({"C": 1, "H": 4, "O": 1}, 0),
    },
}


def _vec(pool, names):
    tot = {}
    q = 0
    for n in names:
        ec, ch = pool[n]
        q += ch
        for e, c in ec.items():
            tot[e] = tot.get(e, 0) + c
    return tuple(sorted(tot.items())), q


def balanced(poolname, maxr, maxp, limit, seed):
    pool = POOLS[poolname]
    names = sorted(pool)
    byvec = {}
    for n in range(1, maxp + 1):
        for ps in itertools.combinations_with_replacement(names, n):
            byvec.setdefault(_vec(pool, ps), []).append(ps)
    out = []
    for n in range(1, maxr + 1):
        for rs in itertools.combinations_with_replacement(names, n):
            for ps in byvec.get(_vec(pool, rs), []):
                if sorted(rs) != sorted(ps):
                    out.append((rs, ps))
    rnd = random.Random(4242 + seed)
    if len(out) > limit:
        out = rnd.sample(out, limit)
    return out


def cases(thorough, seed):
    out = []
    for pn in POOLS:
        maxr, maxp, lim = (3, 4, 1500) if thorough else (2, 3, 400)
        rs = balanced(pn, maxr, maxp, lim, seed)
        # pseudo-reactants do not take part in the balance
        reactions = []
        for i, (r, p) in enumerate(rs):
            r = list(r)
            if i % 7 == 3:
                r.append(["CR", "PHOTON", "CRPHOT"][i % 3])
            reactions.append(rx(r, list(p)))
        c = Case(f"BAL-{pn}", {"reactions": reactions, "network": {}}, tags={"balanced"})
        c.composition = {c.canon(n): v for n, v in POOLS[pn].items()}  # independent of naunet's name parser
        out.append(c)
    return out
