"""Balanced sub-corpus for C04: every reaction conserves each element and charge.

Enumerated small-scope: all reactions over a molecule pool with <=2 (quick) /
<=3 (thorough) reactants and <=3 / <=4 products whose element and charge
vectors balance (computed here, independently of naunet)."""
from __future__ import annotations

import itertools
import random

from .corpus import Case, rx

# name -> (element counts, charge); 'e-' and 'E' are two spellings of the electron
POOLS = {
    "HCO": {
        "H": ({"H": 1}, 0), "H+": ({"H": 1}, 1), "H-": ({"H": 1}, -1), "e-": ({}, -1), "H2": ({"H": 2}, 0), "H2+": ({"H": 2}, 1),
        "H3+": ({"H": 3}, 1), "C": ({"C": 1}, 0), "C+": ({"C": 1}, 1), "CH": ({"C": 1, "H": 1}, 0), "O": ({"O": 1}, 0),
        "OH": ({"O": 1, "H": 1}, 0), "H2O": ({"H": 2, "O": 1}, 0), "CO": ({"C": 1, "O": 1}, 0), "HCO+": ({"H": 1, "C": 1, "O": 1}, 1),
    },
    "spelling": {
        "H": ({"H": 1}, 0), "H+": ({"H": 1}, 1), "E": ({}, -1), "e-": ({}, -1), "He": ({"He": 1}, 0), "He+": ({"He": 1}, 1), "He++": ({"He": 1}, 2),
        "Si": ({"Si": 1}, 0), "Si+": ({"Si": 1}, 1), "SiO": ({"Si": 1, "O": 1}, 0), "O": ({"O": 1}, 0), "S": ({"S": 1}, 0), "SO": ({"S": 1, "O": 1}, 0),
    },
    "deut": {
        "H": ({"H": 1}, 0), "D": ({"D": 1}, 0), "H2": ({"H": 2}, 0), "HD": ({"H": 1, "D": 1}, 0), "oH2": ({"H": 2}, 0), "pH2": ({"H": 2}, 0),
        "H+": ({"H": 1}, 1), "D+": ({"D": 1}, 1), "oH2D+": ({"H": 2, "D": 1}, 1), "pH2D+": ({"H": 2, "D": 1}, 1), "oH3+": ({"H": 3}, 1), "e-": ({}, -1),
        "N2D+": ({"N": 2, "D": 1}, 1), "N2": ({"N": 2}, 0),
    },
    "ice": {
        "H": ({"H": 1}, 0), "#H": ({"H": 1}, 0), "CO": ({"C": 1, "O": 1}, 0), "#CO": ({"C": 1, "O": 1}, 0), "H2": ({"H": 2}, 0), "#H2": ({"H": 2}, 0),
        "#HCO": ({"H": 1, "C": 1, "O": 1}, 0), "HCO": ({"H": 1, "C": 1, "O": 1}, 0), "C": ({"C": 1}, 0), "O": ({"O": 1}, 0), "#O": ({"O": 1}, 0), "#OH": ({"O": 1, "H": 1}, 0),
    },
    # dust grains in three charge states (electron capture, ion recombination on grains)
    "grain": {
        "GRAIN0": ({"GRAIN": 1}, 0), "GRAIN-": ({"GRAIN": 1}, -1), "GRAIN--": ({"GRAIN": 1}, -2), "GRAIN+": ({"GRAIN": 1}, 1), "e-": ({}, -1), "C-": ({"C": 1}, -1), "C--": ({"C": 1}, -2), "H": ({"H": 1}, 0), "H+": ({"H": 1}, 1),
        "C": ({"C": 1}, 0), "C+": ({"C": 1}, 1), "H2": ({"H": 2}, 0), "CH": ({"C": 1, "H": 1}, 0), "CH+": ({"C": 1, "H": 1}, 1),
    },
    # names that *begin* like a pseudo-element or label symbol (M, o, p, m, c-, l-): Mg is an element, oH2 a labelled H2
    "prefix": {
        "Mg": ({"Mg": 1}, 0), "Mg+": ({"Mg": 1}, 1), "MgH": ({"Mg": 1, "H": 1}, 0), "H": ({"H": 1}, 0), "H+": ({"H": 1}, 1), "H2": ({"H": 2}, 0), "oH2": ({"H": 2}, 0), "pH2": ({"H": 2}, 0),
        "H3+": ({"H": 3}, 1), "pH3+": ({"H": 3}, 1), "e-": ({}, -1), "C": ({"C": 1}, 0), "CH": ({"C": 1, "H": 1}, 0), "c-C3H": ({"C": 3, "H": 1}, 0), "l-C3H": ({"C": 3, "H": 1}, 0), "C2": ({"C": 2}, 0),
    },
    # names that differ only by the case of one letter: para-H2 / PH2 (phosphorus dihydride), para-H3+ / PH3+
    "case": {
        "H": ({"H": 1}, 0), "H+": ({"H": 1}, 1), "H2": ({"H": 2}, 0), "pH2": ({"H": 2}, 0), "oH2": ({"H": 2}, 0), "H3+": ({"H": 3}, 1), "pH3+": ({"H": 3}, 1), "e-": ({}, -1),
        "P": ({"P": 1}, 0), "P+": ({"P": 1}, 1), "PH": ({"P": 1, "H": 1}, 0), "PH2": ({"P": 1, "H": 2}, 0), "PH3+": ({"P": 1, "H": 3}, 1), "PH+": ({"P": 1, "H": 1}, 1),
    },
    # isotope symbols that begin with a digit (user element list), as gas and as ice next to the main isotopologue
    "isotope": {
        "C": ({"C": 1}, 0), "13C": ({"13C": 1}, 0), "O": ({"O": 1}, 0), "CO": ({"C": 1, "O": 1}, 0), "13CO": ({"13C": 1, "O": 1}, 0), "#CO": ({"C": 1, "O": 1}, 0), "#13CO": ({"13C": 1, "O": 1}, 0),
        "N": ({"N": 1}, 0), "15N": ({"15N": 1}, 0), "N2": ({"N": 2}, 0), "15N2": ({"15N": 2}, 0), "#N2": ({"N": 2}, 0), "#15N2": ({"15N": 2}, 0), "13C+": ({"13C": 1}, 1), "C+": ({"C": 1}, 1),
    },
    # formulas that mention an element symbol in several places (composition computed by hand)
    "repeat": {
        "H": ({"H": 1}, 0), "C": ({"C": 1}, 0), "O": ({"O": 1}, 0), "N": ({"N": 1}, 0), "H2": ({"H": 2}, 0), "OH": ({"O": 1, "H": 1}, 0),
        "CH3": ({"C": 1, "H": 3}, 0), "CH3OH": ({"C": 1, "H": 4, "O": 1}, 0), "HCOOH": ({"H": 2, "C": 1, "O": 2}, 0), "H2CCO": ({"H": 2, "C": 2, "O": 1}, 0),
        "NH2CHO": ({"N": 1, "H": 3, "C": 1, "O": 1}, 0), "CH3OH2+": ({"C": 1, "H": 5, "O": 1}, 1), "H+": ({"H": 1}, 1), "CO": ({"C": 1, "O": 1}, 0),
        "NH2": ({"N": 1, "H": 2}, 0), "HCO": ({"H": 1, "C": 1, "O": 1}, 0), "CH3OCH3": ({"C": 2, "H": 6, "O": 1}, 0), "#CH3OH": ({"C": 1, "H": 4, "O": 1}, 0),
    },
}


def _vec(pool, names):
    tot = {}
    q = 0
    for n in names:
        ec, ch = pool[n]
        q += ch
        for e, c in ec.items():
            tot[e] = tot.get(e, 0) + c
    return tuple(sorted(tot.items())), q


def balanced(poolname, maxr, maxp, limit, seed):
    pool = POOLS[poolname]
    names = sorted(pool)
    byvec = {}
    for n in range(1, maxp + 1):
        for ps in itertools.combinations_with_replacement(names, n):
            byvec.setdefault(_vec(pool, ps), []).append(ps)
    out = []
    for n in range(1, maxr + 1):
        for rs in itertools.combinations_with_replacement(names, n):
            for ps in byvec.get(_vec(pool, rs), []):
                if sorted(rs) != sorted(ps):
                    out.append((rs, ps))
    rnd = random.Random(4242 + seed)
    if len(out) > limit:
        out = rnd.sample(out, limit)
    return out


FORMAT_LIMITS = {"umist": (2, 4), "kida": (3, 5), "leeds": (3, 5), "uclchem": (3, 4), "naunet": (3, 5)}  # reactant / product columns
TWO_BODY_CODE = {"kida": 3, "umist": "NN", "leeds": 1, "uclchem": "", "naunet": 100}


def file_cases(thorough, seed):
    """the same balanced reactions written in each input format (every reactant and product column used by some
    of them) and read by the real parsers"""
    from . import encoders

    out = []
    pool = POOLS["HCO"]
    rnd = random.Random(977 + seed)
    for fmt, (maxr, maxp) in FORMAT_LIMITS.items():
        rs = balanced("HCO", min(maxr, 3), maxp, 10**9, seed)
        full = [x for x in rs if len(x[1]) == maxp]
        rest = [x for x in rs if len(x[1]) < maxp]
        pick = rnd.sample(full, min(len(full), 14 if not thorough else 60)) + rnd.sample(rest, min(len(rest), 40 if not thorough else 200))
        lines = []
        for k, (r, p_) in enumerate(pick):
            names = lambda xs: [("E-" if x == "e-" else x.upper()) if fmt == "uclchem" else x for x in xs]
            lit = (lambda v: v) if fmt != "leeds" else (lambda v: {"1.0e-10": "1.00E-10", "0.0": "0.00", "0.0c": "0.0"}[v])
            lines.append({"reactants": names(r), "products": names(p_), "a": lit("1.0e-10"), "b": lit("0.0"), "c": "0.0", "tmin": "10" if fmt != "uclchem" else "0", "tmax": "41000" if fmt != "uclchem" else "0", "idx": k + 1, "code": TWO_BODY_CODE[fmt]})
        text = "\n".join(encoders.ENC[fmt](l) for l in lines) + "\n"
        net = {"filelist": f"bal.{fmt}", "fileformats": fmt}
        if fmt == "uclchem":
            net.update({"elements": ["E", "H", "C", "O"], "pseudo_elements": ["CR", "CRP", "PHOTON", "CRPHOT"]})
        c = Case(f"BALF-{fmt}", {"files": [{"name": f"bal.{fmt}", "content": text}], "network": net}, tags={"balanced"})
        c.composition = {c.canon(n): v for n, v in pool.items()}
        if fmt == "uclchem":
            c.composition.update({c.canon(n.upper() if n != "e-" else "E-"): v for n, v in pool.items()})
        out.append(c)
    out.append(_krome_blocks(thorough, seed))
    out += _grain_model_cases()
    return out


# gas-grain species of the Leeds-format grain corpus (hand-written; 'G' is the format's ice prefix)
_GG = {"C": ({"C": 1}, 0), "C+": ({"C": 1}, 1), "CH4": ({"C": 1, "H": 4}, 0), "CO": ({"C": 1, "O": 1}, 0), "CO2": ({"C": 1, "O": 2}, 0), "H": ({"H": 1}, 0), "H+": ({"H": 1}, 1), "H2": ({"H": 2}, 0),
       "H2O": ({"H": 2, "O": 1}, 0), "H3O+": ({"H": 3, "O": 1}, 1), "HCO": ({"H": 1, "C": 1, "O": 1}, 0), "HCO+": ({"H": 1, "C": 1, "O": 1}, 1), "O": ({"O": 1}, 0), "e-": ({}, -1),
       "GRAIN0": ({"GRAIN": 1}, 0), "GRAIN-": ({"GRAIN": 1}, -1)}
for _g in ("CH4", "CO", "CO2", "H", "H2", "H2O", "HCO", "O"):
    _GG["G" + _g] = _GG[_g]
    _GG["#" + _g] = _GG[_g]


def _grain_model_cases():
    """balanced gas-grain reactions (accretion, desorption, cation-grain recombination, electron capture, surface
    two-body, reactive desorption) read from a Leeds-format file and rendered under a dust model: the rate builders
    of the model run before the right-hand side is assembled"""
    from . import encoders
    from .checks import c11

    def bal(l):
        return _vec(_GG, [x for x in l["reactants"]]) == _vec(_GG, [x for x in l["products"]])

    lines = [dict(l, idx=k + 1) for k, l in enumerate(x for x in c11.leeds_lines() if all(n in _GG for n in x["reactants"] + x["products"]) and bal(x))]
    text = "\n".join(encoders.ENC["leeds"](l) for l in lines) + "\n"
    out = []
    for model in ("hh93", "hh93i"):
        c = Case(f"BALF-leeds-{model}", {"files": [{"name": "gg.leeds", "content": text}], "network": {"filelist": "gg.leeds", "fileformats": "leeds", "grain_model": model}}, tags={"balanced"})
        c.composition = {c.canon(n): v for n, v in _GG.items()}
        out.append(c)
    return out


def _krome_blocks(thorough, seed):
    """KROME: the same balanced reactions under several @format directives that have the *same number of columns* but
    arrange reactant and product columns differently (2R+3P, 3R+2P, 1R+4P), alternating, so that every directive is
    followed by lines that use exactly the columns whose role it changed"""
    pool = POOLS["HCO"]
    rnd = random.Random(1301 + seed)
    layouts = [(2, 3), (3, 2), (1, 4)]
    rs = balanced("HCO", 3, 4, 10**9, seed)
    per = 5 if not thorough else 25
    lines, k = [], 0
    for rep in range(2):  # each layout occurs twice: switching back is a change of directive as well
        for nr, np_ in layouts:
            fit = [x for x in rs if len(x[0]) == nr and len(x[1]) == np_] or [x for x in rs if len(x[0]) <= nr and len(x[1]) <= np_]
            lines.append("@format:idx," + ",".join(["R"] * nr + ["P"] * np_) + ",Tmin,Tmax,rate")
            for r, p_ in rnd.sample(fit, min(per, len(fit))):
                k += 1
                cols = list(r) + [""] * (nr - len(r)) + list(p_) + [""] * (np_ - len(p_))
                lines.append(",".join([str(k), *cols, "NONE", "NONE", f"{k}.0d-10"]))
    c = Case("BALF-krome-blocks", {"files": [{"name": "bal.krome", "content": "\n".join(lines) + "\n"}], "network": {"filelist": "bal.krome", "fileformats": "krome"}}, tags={"balanced"})
    c.composition = {c.canon(n): v for n, v in pool.items()}
    return c


def cases(thorough, seed):
    out = file_cases(thorough, seed)
    for pn in POOLS:
        maxr, maxp, lim = (3, 4, 1500) if thorough else (2, 3, 400)
        rs = balanced(pn, maxr, maxp, lim, seed)
        # pseudo-reactants do not take part in the balance
        reactions = []
        for i, (r, p) in enumerate(rs):
            r = list(r)
            if i % 7 == 3:
                r.append(["CR", "PHOTON", "CRPHOT"][i % 3])
            reactions.append(rx(r, list(p)))
        # two pools also carry inert species (declared as extra species, part of no reaction): their derivative is zero
        inert = {"HCO": ["He", "Ne+"], "ice": ["#N2"]}.get(pn, [])
        netkw = {"required_species": inert} if inert else {}
        if pn == "isotope":
            netkw = {"elements": ["e", "H", "C", "13C", "N", "15N", "O"], "pseudo_elements": ["CR", "PHOTON", "CRPHOT"]}
        spec_ = {"reactions": reactions, "network": netkw}
        if pn == "isotope":
            spec_["pre"] = [{"op": "exec", "code": "from naunet.chemistrydata import update_binding_energy\nupdate_binding_energy({'#13CO': 1150.0, '#15N2': 790.0})\n"}]
        c = Case(f"BAL-{pn}", spec_, tags={"balanced"})
        c.composition = {c.canon(n): v for n, v in POOLS[pn].items()}  # independent of naunet's name parser
        c.composition.update({c.canon(n): v for n, v in {"He": ({"He": 1}, 0), "Ne+": ({"Ne": 1}, 1), "#N2": ({"N": 2}, 0)}.items() if n in inert})
        out.append(c)
    return out
