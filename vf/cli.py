import importlib
import json
import sys
import traceback

from .report import EXIT_HARNESS

REG = {
    "C01": ("vf.checks.ode_props", "C01"), "C02": ("vf.checks.ode_props", "C02"),
    "C03": ("vf.checks.ode_props", "C03"), "C04": ("vf.checks.ode_props", "C04"),
    "C19": ("vf.checks.c19", "C19"),
    "C15": ("vf.checks.chx_props", "C15"),
    "C07": ("vf.checks.chx_props", "C07"),
    "C09": ("vf.checks.c09", "C09"),
    "C08": ("vf.checks.chx_props", "C08"),
    "C14": ("vf.checks.c14", "C14"),
    "C16": ("vf.checks.c16", "C16"),
    "C13": ("vf.checks.c13", "C13"),
    "C20": ("vf.checks.c20", "C20"),
    "C18": ("vf.checks.c18", "C18"),
    "C11": ("vf.checks.c11", "C11"),
    "C10": ("vf.checks.c10", "C10"),
    "C12": ("vf.checks.c12", "C12"),
    "C05": ("vf.checks.rates_props", "C05"), "C06": ("vf.checks.rates_props", "C06"),
}


def main():
    if len(sys.argv) < 3:
        print(__doc__ or "usage: run <Cxx> quick|thorough | run replay <file>")
        return EXIT_HARNESS
    if sys.argv[1] == "replay":
        d = json.load(open(sys.argv[2]))
        print(json.dumps({k: d[k] for k in ("property", "key", "what")}, indent=1))
        pid, tier = d["property"], "quick"
    else:
        pid, tier = sys.argv[1], sys.argv[2]
    mod, arg = REG[pid]
    # one scratch directory per run: rendered projects, compiler output and solver files of this process and of its
    # worker processes (which do not run exit handlers) all go below it, and it is removed when the check ends
    import os
    import shutil
    import tempfile

    run_tmp = tempfile.mkdtemp(prefix="naunet-verif-run-", dir=os.environ.get("TMPDIR") or "/tmp")
    os.environ["TMPDIR"] = run_tmp
    tempfile.tempdir = run_tmp
    try:
        m = importlib.import_module(mod)
        return (m.run if hasattr(m, "run") else m.main)(arg, tier)
    except Exception:
        traceback.print_exc()
        return EXIT_HARNESS
    finally:
        shutil.rmtree(run_tmp, ignore_errors=True)


if __name__ == "__main__":
    sys.exit(main())
