"""Format encoders: abstract reaction -> one well-formed line of each input format.

These are written from the format descriptions (column widths / field order),
independently of naunet's parsers; they are the 'format definitions' the
round-trip oracles (C05, C06, C07, C18) rely on.

Abstract reaction = dict(reactants, products, a, b, c, tmin, tmax, idx, code)
where a/b/c/tmin/tmax are *literal strings* as they appear in the file (so the
exact decimal text is under control) and `code` is the format's own type code.
"""
from __future__ import annotations


def _pad(names, n, width, fill=""):
    names = list(names) + [fill] * (n - len(names))
    return [f"{x:<{width}}" for x in names]


def kida(r):
    """KIDA: 3 reactant columns of 11 (+1 blank) = 34, 5 product columns of 11 (+1) = 56, then
    alpha beta gamma F g type itype Tmin Tmax formula id nrec rec (whitespace separated)."""
    rs = "".join(_pad(r["reactants"], 3, 11)) + " "
    ps = "".join(_pad(r["products"], 5, 11)) + " "
    tail = f"{r['a']:>10} {r['b']:>10} {r['c']:>10} 2.00e+00 0.00e+00 logn {r.get('itype', 4):>2} {r['tmin']:>6} {r['tmax']:>6} {r['code']:>2} {r['idx']:>5} 1  1"
    return rs + ps + tail


def umist(r):
    """UMIST RATE12: idx:code:R1:R2:P1:P2:P3:P4:NE:alpha:beta:gamma:Tl:Tu:ST:ACC:ref:ref:  -- an entry tabulated with
    several fits (NE > 1) repeats the block alpha:beta:gamma:Tl:Tu:ST:ACC:ref:ref for each further temperature range
    (r['fits'] = [(a, b, c, tl, tu), ...]); the tool reads one reaction per line, from the first block"""
    rs = list(r["reactants"]) + [""] * (2 - len(r["reactants"]))
    ps = list(r["products"]) + [""] * (4 - len(r["products"]))
    more = []
    for a, b, c, tl, tu in r.get("fits", []):
        more += [a, b, c, str(tl), str(tu), "M", "A", '"10.1000/ref:2"', '"notes"']
    return ":".join([str(r["idx"]), r["code"], *rs, *ps, str(1 + len(r.get("fits", []))), r["a"], r["b"], r["c"], str(r["tmin"]), str(r["tmax"]), "L", "C", '"10.1051/0004-6361:20020882"' if more else '"ref"', '"notes"', *more, ""])


def leeds(r):
    """Walsh (Leeds) fixed width: idx(5) reactants(3x10) products(5x10) alpha(8) beta(9) gamma(10) Tl(5) Tu(5) type(3)"""
    return "".join([
        f"{r['idx']:<5}",
        "".join(_pad(r["reactants"], 3, 10)),
        "".join(_pad(r["products"], 5, 10)),
        f"{r['a']:>8}", f"{r['b']:>9}", f"{r['c']:>10}",
        f"{r['tmin']:>5}", f"{r['tmax']:>5}", f"{r['code']:>3}",
    ])


def uclchem(r):
    """UCLCHEM Makerates: R1,R2,R3,P1,P2,P3,P4,alpha,beta,gamma,Tl,Tu ; empty slots are NAN;
    the second reactant slot carries the process marker (CRP, PHOTON, CRPHOT, FREEZE, ...)"""
    rs = list(r["reactants"])
    if r.get("code"):
        rs = rs[:1] + [r["code"]] + rs[1:]
    rs = rs + ["NAN"] * (3 - len(rs))
    ps = list(r["products"]) + ["NAN"] * (4 - len(r["products"]))
    return ",".join([*rs, *ps, r["a"], r["b"], r["c"], str(r["tmin"]), str(r["tmax"])])


KROME_HEADER = "@format:idx,R,R,R,P,P,P,P,P,Tmin,Tmax,rate"


def krome(r):
    """KROME with the explicit @format header above; r['rate'] is the Fortran rate expression"""
    rs = list(r["reactants"]) + [""] * (3 - len(r["reactants"]))
    ps = list(r["products"]) + [""] * (5 - len(r["products"]))
    return ",".join([str(r["idx"]), *rs, *ps, str(r["tmin"]), str(r["tmax"]), r["rate"]])


def naunet(r):
    """native exchange format: idx(<5), 3 reactants (>12), 5 products (>12), alpha beta gamma (10.3e),
    Tmin Tmax (9.2f), type (>4), source (>8); comma separated"""
    rs = [f"{x:>12}" for x in list(r["reactants"]) + [""] * (3 - len(r["reactants"]))]
    ps = [f"{x:>12}" for x in list(r["products"]) + [""] * (5 - len(r["products"]))]
    return ",".join([f"{r['idx']:<5}", *rs, *ps, f"{r['a']:>10}", f"{r['b']:>10}", f"{r['c']:>10}", f"{r['tmin']:>9}", f"{r['tmax']:>9}", f"{r['code']:>4}", f"{r.get('source', 'unknown'):>8}"])


ENC = {"kida": kida, "umist": umist, "leeds": leeds, "uclchem": uclchem, "krome": krome, "naunet": naunet}
