"""Render projects with the real generator and lower them with the real compiler."""
from __future__ import annotations

from .paths import child_env
import atexit
import hashlib
import json
import os
import re
import shutil
import subprocess
import tempfile
import time

HERE = os.path.dirname(os.path.abspath(__file__))
VERIF = os.path.dirname(HERE)
PY = os.path.join(VERIF, ".venv", "bin", "python")
SHIM = os.path.join(HERE, "shim", "include")
CLANG = shutil.which("clang++-14") or "clang++"
IRFLAGS = [
    "-std=c++14", "-O1", "-ffp-contract=off", "-fno-builtin", "-fno-unroll-loops",
    "-fno-vectorize", "-fno-slp-vectorize", "-fno-inline", "-fno-strict-aliasing",
    "-mllvm", "-simplifycfg-sink-common=false",  # keep store addresses concrete (no phi-of-index)
    "-S", "-emit-llvm", "-w",
]

_scratch = None


def scratch_root():
    global _scratch
    if _scratch is None:
        base = os.environ.get("TMPDIR") or "/tmp"
        _scratch = tempfile.mkdtemp(prefix="naunet-verif-", dir=base)
        atexit.register(lambda: shutil.rmtree(_scratch, ignore_errors=True))
    return _scratch


def ensure_venv():
    if not os.path.exists(PY):
        subprocess.run([os.path.join(VERIF, "setup.sh")], check=True, stdout=subprocess.DEVNULL)


class RenderError(Exception):
    pass


class Project:
    """One rendered network (possibly several back-end targets)."""

    def __init__(self, name, spec, workdir, meta, wall):
        self.name, self.spec, self.dir, self.meta, self.wall = name, spec, workdir, meta, wall
        self._macros = {}
        self._ir = {}

    @property
    def ok(self):
        return bool(self.meta.get("ok"))

    def target_ok(self, tdir):
        t = self.meta.get("targets", {}).get(tdir)
        return bool(t and t.get("ok"))

    def tdir(self, tdir):
        return os.path.join(self.dir, tdir)

    def sources(self, tdir):
        src = os.path.join(self.tdir(tdir), "src")
        return sorted(f for f in os.listdir(src) if f.endswith((".cpp", ".cu")))

    # -- macros through the real preprocessor
    def macros(self, tdir):
        if tdir in self._macros:
            return self._macros[tdir]
        inc = os.path.join(self.tdir(tdir), "include")
        r = subprocess.run([CLANG, "-E", "-dM", "-x", "c++", "-std=c++14", "-I", SHIM, "-I", inc, os.path.join(inc, "naunet_macros.h")], capture_output=True, text=True)
        if r.returncode != 0:
            raise RenderError("preprocessing naunet_macros.h failed: " + r.stderr[-500:])
        names = []
        for l in r.stdout.splitlines():
            m = re.match(r"#define ((?:IDX_|N)\w+|THERMAL|MAX_NSYSTEMS|NAUNET_SUCCESS|NAUNET_FAIL)\s+\S", l)
            if m and not m.group(1).startswith("NULL") and "(" not in m.group(1):
                names.append(m.group(1))
        names = [n for n in names if not n.startswith(("NVEC", "NDEBUG", "NAN"))]
        probe = os.path.join(self.tdir(tdir), "verif_macro_probe.cpp")
        with open(probe, "w") as fh:
            fh.write('#include "naunet_macros.h"\n')
            for n in names:
                fh.write(f"extern const long VERIF_{n};\nconst long VERIF_{n} = ({n});\n")
        r = subprocess.run([CLANG, "-std=c++14", "-S", "-emit-llvm", "-O0", "-w", "-I", SHIM, "-I", inc, probe, "-o", probe + ".ll"], capture_output=True, text=True)
        if r.returncode != 0:
            raise RenderError("macro probe failed: " + r.stderr[-800:])
        vals = {}
        for l in open(probe + ".ll"):
            m = re.match(r"@VERIF_(\w+) = .*constant i64 (-?\d+)", l)
            if m:
                vals[m.group(1)] = int(m.group(2))
        os.remove(probe)
        os.remove(probe + ".ll")
        self._macros[tdir] = vals
        return vals

    # -- IR through the real compiler
    def compile_ir(self, tdir, tu, extra_flags=(), pre=None, tag=""):
        """Lower one translation unit; returns (ll_path or None, stderr)."""
        key = (tdir, tu, tuple(extra_flags), tag)
        if key in self._ir:
            return self._ir[key]
        t = self.tdir(tdir)
        src = os.path.join(t, "src", tu)
        if pre is not None:
            text = open(src).read()
            text = pre(text)
            src = os.path.join(t, "src", f"verif_{tag}_{tu}")
            if src.endswith(".cu"):
                src = src[:-3] + ".cpp"
            with open(src, "w") as fh:
                fh.write(text)
        out = os.path.join(t, f"{tu}{tag}.ll")
        cmd = [CLANG, *IRFLAGS, "-x", "c++", "-I", SHIM, "-I", os.path.join(t, "include"), *extra_flags, src, "-o", out]
        r = subprocess.run(cmd, capture_output=True, text=True)
        res = (out if r.returncode == 0 else None, r.stderr)
        self._ir[key] = res
        return res

    def data_fields(self, tdir):
        """NaunetData field names in declaration order with their default values."""
        h = open(os.path.join(self.tdir(tdir), "include", "naunet_data.h")).read()
        body = h[h.index("struct NaunetData") :]
        return [(m.group(1), m.group(2)) for m in re.finditer(r"^\s*double\s+(\w+)(?:\s*=\s*([^;]+))?;", body, re.M)]


_counter = [0]


def render(name, spec, timeout=900):
    """Run the real generator on `spec` in a fresh subprocess."""
    ensure_venv()
    _counter[0] += 1
    work = os.path.join(scratch_root(), f"p{_counter[0]:04d}_{re.sub(r'[^A-Za-z0-9_]+', '_', name)[:40]}")
    os.makedirs(work)
    sp = os.path.join(work, "spec.json")
    with open(sp, "w") as fh:
        json.dump(spec, fh)
    env = dict(os.environ, TQDM_DISABLE="1", PYTHONHASHSEED="0", NAUNET_VERIF="1")
    child_env(env)
    t0 = time.time()
    try:
        r = subprocess.run([PY, os.path.join(HERE, "render_worker.py"), sp, work], capture_output=True, text=True, timeout=timeout, env=env)
    except subprocess.TimeoutExpired:
        return Project(name, spec, work, {"ok": False, "error": "render timeout"}, time.time() - t0)
    mp = os.path.join(work, "meta.json")
    if os.path.exists(mp):
        meta = json.load(open(mp))
    else:
        meta = {"ok": False, "error": "worker crashed: " + (r.stderr or r.stdout)[-1500:]}
    return Project(name, spec, work, meta, time.time() - t0)


def repo_fingerprint():
    """content hash of /repo/naunet (recorded in evidence: what was analysed)"""
    h = hashlib.sha256()
    from .paths import REPO
    root = REPO + "/naunet"
    for dp, dn, fn in sorted(os.walk(root)):
        dn.sort()
        if "__pycache__" in dp:
            continue
        for f in sorted(fn):
            if f.endswith((".pyc",)):
                continue
            p = os.path.join(dp, f)
            h.update(p.encode())
            with open(p, "rb") as fh:
                h.update(fh.read())
    return h.hexdigest()[:16]


TARGETS = {
    "dense": {"solver": "cvode", "method": "dense", "device": "cpu", "dir": "cvode_dense"},
    "sparse": {"solver": "cvode", "method": "sparse", "device": "cpu", "dir": "cvode_sparse"},
    "cusparse": {"solver": "cvode", "method": "cusparse", "device": "gpu", "dir": "cvode_cusparse"},
    "odeint": {"solver": "odeint", "method": "rosenbrock4", "device": "cpu", "dir": "odeint_rosenbrock4"},
}


def render_cli(name, files, init_args, tdir, render_args=("--force",), timeout=900, edit_config=None):
    """Drive the real command line: `naunet init <options>` then `naunet render` in a
    fresh directory <work>/<tdir>; returns a Project whose only target is tdir."""
    ensure_venv()
    _counter[0] += 1
    work = os.path.join(scratch_root(), f"c{_counter[0]:04d}_{re.sub(r'[^A-Za-z0-9_]+', '_', name)[:40]}")
    pdir = os.path.join(work, tdir)
    os.makedirs(pdir)
    for f in files:
        with open(os.path.join(pdir, f["name"]), "w") as fh:
            fh.write(f["content"])
    env = dict(os.environ, TQDM_DISABLE="1", PYTHONHASHSEED="0", NAUNET_VERIF="1")
    child_env(env)
    launcher = "import sys; from naunet.console import main; sys.exit(main())"
    t0 = time.time()
    log = ""
    meta = {"ok": True, "targets": {tdir: {"ok": True}}}
    for args in (["init", "--no-interaction", *init_args], ["render", "--no-interaction", *render_args]):
        try:
            r = subprocess.run([PY, "-c", launcher, *args], capture_output=True, text=True, timeout=timeout, env=env, cwd=pdir)
        except subprocess.TimeoutExpired:
            meta = {"ok": False, "error": f"naunet {args[0]} timed out", "targets": {}}
            break
        log += r.stdout[-1500:] + r.stderr[-1500:]
        if r.returncode != 0:
            meta = {"ok": False, "error": f"naunet {args[0]} exited with {r.returncode}: {(r.stderr or r.stdout)[-600:]}", "targets": {tdir: {"ok": False, "error": (r.stderr or r.stdout)[-600:]}}}
            break
        if args[0] == "init" and edit_config is not None:
            # the user edits naunet_config.toml by hand between init and render
            cfgp = os.path.join(pdir, "naunet_config.toml")
            txt = open(cfgp).read()
            with open(cfgp, "w") as fh:
                fh.write(edit_config(txt))
    meta["log"] = log[-3000:]
    cfg = os.path.join(pdir, "naunet_config.toml")
    if os.path.exists(cfg):
        meta["config_text"] = open(cfg).read()
    if meta["ok"] and not os.path.isdir(os.path.join(pdir, "src")):
        meta = {"ok": False, "error": "render produced no src directory: " + log[-400:], "targets": {tdir: {"ok": False}}}
    return Project(name, {"cli": {"init": list(init_args), "render": list(render_args)}}, work, meta, time.time() - t0)


def rerender_exported(parent, expdir, tdir, timeout=900):
    """`naunet render --force` inside an exported project directory <parent.dir>/<expdir>/<tdir>
    (re-render from its own reactions.naunet + naunet_config.toml)"""
    pdir = os.path.join(parent.dir, expdir, tdir)
    env = dict(os.environ, TQDM_DISABLE="1", PYTHONHASHSEED="0", NAUNET_VERIF="1")
    child_env(env)
    launcher = "import sys; from naunet.console import main; sys.exit(main())"
    t0 = time.time()
    meta = {"ok": True, "targets": {tdir: {"ok": True}}}
    if not os.path.isdir(pdir):
        meta = {"ok": False, "error": "export produced no directory", "targets": {}}
    else:
        for sub in ("src", "include"):
            shutil.rmtree(os.path.join(pdir, sub), ignore_errors=True)
        try:
            r = subprocess.run([PY, "-c", launcher, "render", "--no-interaction", "--force"], capture_output=True, text=True, timeout=timeout, env=env, cwd=pdir)
            if r.returncode != 0:
                meta = {"ok": False, "error": f"render in the exported directory exited with {r.returncode}: {(r.stderr or r.stdout)[-600:]}", "targets": {tdir: {"ok": False}}}
            elif not os.path.isdir(os.path.join(pdir, "src")):
                meta = {"ok": False, "error": "re-render produced no sources: " + (r.stderr or r.stdout)[-400:], "targets": {tdir: {"ok": False}}}
        except subprocess.TimeoutExpired:
            meta = {"ok": False, "error": "re-render timed out", "targets": {}}
        cfg = os.path.join(pdir, "naunet_config.toml")
        if os.path.exists(cfg):
            meta["config_text"] = open(cfg).read()
    return Project(parent.name + "-exported", {}, os.path.join(parent.dir, expdir), meta, time.time() - t0)
