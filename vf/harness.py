"""Harnesses: run the entry points of a rendered project symbolically.

Every stub used is listed in STUB_DOC (copied into evidence files).
"""
from __future__ import annotations

import re
import subprocess
from fractions import Fraction

import z3

from .irsym import Dual, Inconclusive, Machine, Ptr, R, State, Throw, fadd, fmul, is_sym, val_of

STUB_DOC = [
    "exp/log/log10/sqrt/pow/cbrt/erf...: uninterpreted functions over the reals with the exact values exp(0)=1, pow(x,0)=1, pow(1,y)=1, sqrt(0)=0, sqrt(1)=1, log(1)=0 (fabs, fmin, fmax: exact ite)",
    "printf/fprintf/sprintf/fwrite/fputs/puts: recorded in the event log (format string + argument terms, guarded by the path condition), no other effect",
    "N_VGetArrayPointer / N_VGetDeviceArrayPointer_Cuda: return the harness array object of that vector",
    "SUNMatZero / ublas matrix = zero_matrix: set every cell of the matrix object to 0",
    "SM_ELEMENT_D(A,i,j) / ublas matrix(i,j) / ublas vector[i]: address of cell (i,j) in the harness matrix object; i and j are bounds-checked separately against the declared dimensions",
    "SUNSparseMatrix_IndexPointers/IndexValues/Data: the harness arrays of NEQUATIONS+1 / NNZ / NNZ cells (exactly the sizes SUNSparseMatrix(NEQ,NEQ,NNZ,CSR_MAT) allocates)",
    "llvm.memset / llvm.memcpy: modelled cell-wise; lifetime/dbg/assume intrinsics: no-op",
    "EvalRates/EvalHeatingRates/EvalCoolingRates (mode havoc): assert the array argument has exactly NREACTIONS/NHEATPROCS/NCOOLPROCS zero-initialised cells, then overwrite with fresh reals",
    "GetMu/GetGamma/GetNumDens/GetMantleDens/GetHNuclei... (when not the subject): opaque reals",
]

REAL = z3.RealSort()
_UF1 = {}
_UF2 = {}


def uf1(name):
    if name not in _UF1:
        _UF1[name] = z3.Function(name, REAL, REAL)
    return _UF1[name]


def uf2(name):
    if name not in _UF2:
        _UF2[name] = z3.Function(name, REAL, REAL, REAL)
    return _UF2[name]


_CONST1 = {("exp", 0): 1, ("sqrt", 0): 0, ("sqrt", 1): 1, ("log", 1): 0, ("log10", 1): 0, ("cbrt", 0): 0, ("cbrt", 1): 1}


def UF1(name, x):
    """uninterpreted libm function with the exact values at 0/1 that the generator's
    'omit a factor whose coefficient is 0' convention relies on (exp(0)=1, ...)"""
    x = val_of(x)
    if not is_sym(x) and (name, Fraction(x)) in _CONST1:
        return Fraction(_CONST1[(name, Fraction(x))])
    return uf1(name)(R(x))


def UF2(name, x, y):
    x, y = val_of(x), val_of(y)
    if name == "pow" and not is_sym(y) and Fraction(y) == 0:
        return Fraction(1)
    if name == "pow" and not is_sym(x) and Fraction(x) == 1:
        return Fraction(1)
    return uf2(name)(R(x), R(y))


def _mk_uf1(name):
    def f(M, st, a):
        return st, UF1(name, a[0])

    return f


def _mk_uf2(name):
    def f(M, st, a):
        return st, UF2(name, a[0], a[1])

    return f


def _fabs(M, st, a):
    x = val_of(a[0])
    if not is_sym(x):
        return st, abs(Fraction(x))
    return st, z3.If(x >= 0, x, -x)


def _fmin(M, st, a):
    x, y = R(a[0]), R(a[1])
    return st, z3.If(x <= y, x, y)


def _fmax(M, st, a):
    x, y = R(a[0]), R(a[1])
    return st, z3.If(x >= y, x, y)


def _printf_like(fmt_index):
    def f(M, st, a):
        fmt = M.cstring(a[fmt_index]) if len(a) > fmt_index else None
        st.log.append((z3.BoolVal(True), ("print", fmt, tuple(a[fmt_index + 1 :]))))
        return st, 0

    return f


def _memset(M, st, a):
    p, v, n = a[0], a[1], a[2]
    if is_sym(n) or is_sym(v):
        raise Inconclusive("symbolic memset")
    if n == 0:
        return st, None
    if not M.check(st, p, n, "memset"):
        return st, None
    if v != 0:
        raise Inconclusive("memset with non-zero byte")
    # typed zero: doubles live at 8-aligned offsets in every object we model;
    # integer arrays (rowptrs) are re-read as ints -> store a polymorphic zero
    for o in range(0, n, 4):
        st.store(p.obj, p.off + o, ZERO)
    return st, None


ZERO = Fraction(0)  # Machine.load coerces it to int 0 for integer loads


def _memcpy(M, st, a):
    d, s, n = a[0], a[1], a[2]
    if is_sym(n):
        raise Inconclusive("symbolic memcpy")
    if n == 0:
        return st, None
    if not (M.check(st, d, n, "memcpy dst") and M.check(st, s, n, "memcpy src")):
        return st, None
    if s.obj.startswith("global:"):
        cells = dict(M.materialise_global(s.obj[7:]) or {})
        cells.update(st.cells(s.obj))
    else:
        cells = st.cells(s.obj)
    for off, v in cells.items():
        if isinstance(off, int) and s.off <= off < s.off + n:
            st.store(d.obj, d.off + off - s.off, v)
        elif isinstance(off, tuple) and off[0] == "w" and s.off <= off[1] < s.off + n:
            st.store(d.obj, ("w", d.off + off[1] - s.off), v)
    return st, None


def base_stubs():
    s = {}
    for n in ("exp", "log", "log10", "sqrt", "cbrt", "erf", "erfc", "tanh", "sinh", "cosh", "sin", "cos", "tan", "atan", "asin", "acos", "asinh", "acosh", "atanh", "log2", "exp10", "exp2", "floor", "ceil"):
        s[n] = _mk_uf1(n)
    for n in ("pow", "atan2", "fmod"):
        s[n] = _mk_uf2(n)
    s["fabs"] = _fabs
    s["llvm.fabs.f64"] = _fabs
    s["fmin"] = _fmin
    s["fmax"] = _fmax
    s["_Z3mindd"] = _fmin
    s["_Z3maxdd"] = _fmax
    s["llvm.minnum.f64"] = _fmin
    s["llvm.maxnum.f64"] = _fmax
    s["printf"] = _printf_like(0)
    s["fprintf"] = _printf_like(1)
    s["sprintf"] = _printf_like(1)
    s["puts"] = _printf_like(0)
    s["fputs"] = _printf_like(0)
    s["fwrite"] = _printf_like(0)
    s["fputc"] = lambda M, st, a: (st, 0)
    s["putchar"] = lambda M, st, a: (st, 0)
    s["llvm.memset.p0i8.i64"] = _memset
    s["llvm.memcpy.p0i8.p0i8.i64"] = _memcpy
    s["llvm.memmove.p0i8.p0i8.i64"] = _memcpy
    return s


# --------------------------------------------------------------------------- load a project into a machine
def demangle(names):
    if not names:
        return {}
    r = subprocess.run(["c++filt"], input="\n".join(names), capture_output=True, text=True)
    return dict(zip(names, r.stdout.splitlines()))


class Loaded:
    """A Machine with the IR of a project's translation units + name lookup."""

    def __init__(self, project, tdir, tus=None, ir_paths=None, stubs=None):
        self.project, self.tdir = project, tdir
        self.errors = {}
        paths = []
        if ir_paths is None:
            for tu in tus or project.sources(tdir):
                ll, err = project.compile_ir(tdir, tu)
                if ll is None:
                    self.errors[tu] = err
                else:
                    paths.append(ll)
        else:
            paths = list(ir_paths)
        st = base_stubs()
        st.update(stubs or {})
        self.M = Machine(paths, st)
        self.dem = demangle(sorted(self.M.funcs))
        self.pattern_stubs = []
        self.M.call = self._call_wrap(self.M.call)
        self._extdem = {}

    def _call_wrap(self, orig):
        M = self.M

        def call(st, name, args, argtys=None):
            if name not in M.stubs and name not in M.funcs and self.pattern_stubs:
                d = self._extdem.get(name)
                if d is None:
                    d = self._extdem[name] = demangle([name])[name]
                for rx, f in self.pattern_stubs:
                    if rx.search(d):
                        M.stubs[name] = f
                        break
            return orig(st, name, args, argtys)

        return call

    def add_pattern_stub(self, regex, f):
        self.pattern_stubs.append((re.compile(regex), f))

    def find(self, regex):
        """mangled name of the unique defined function whose demangled name matches"""
        rx = re.compile(regex)
        hits = [n for n, d in self.dem.items() if rx.search(d)]
        if len(hits) != 1:
            raise Inconclusive(f"function lookup {regex!r}: {len(hits)} matches")
        return hits[0]

    def has(self, regex):
        rx = re.compile(regex)
        return any(rx.search(d) for d in self.dem.values())


# --------------------------------------------------------------------------- common harness objects
def real_vec(prefix, n):
    return [z3.Real(f"{prefix}{i}") for i in range(n)]


def make_array(st, name, n, vals=None, width=8):
    st.size[name] = width * n
    st.mem.setdefault(name, {})
    if vals is not None:
        for i, v in enumerate(vals):
            if v is not None:
                st.mem[name][width * i] = v
    return Ptr(name, 0)


def make_udata(L, st, name="udata", fields=None, overrides=None):
    """NaunetData object with one named real per field"""
    M = L.M
    names = [f for f, _ in L.project.data_fields(L.tdir)]
    sty = "%struct.NaunetData"
    if sty in M.structs and M.structs[sty].strip() != "opaque":
        offs, size, _ = M.struct_layout(sty)
        if len(offs) != len(names):
            raise Inconclusive(f"NaunetData has {len(offs)} IR fields but header declares {len(names)}")
    else:
        offs, size = [(8 * i, "double") for i in range(len(names))], 8 * max(len(names), 1)
    st.size[name] = max(size, 1)
    st.mem.setdefault(name, {})
    sym = {}
    for (off, _), nm in zip(offs, names):
        v = (overrides or {}).get(nm)
        if v is None:
            v = z3.Real(nm)
        st.mem[name][off] = v
        sym[nm] = v
    return Ptr(name, 0), sym


def havoc_rates(arr_syms, n, label, log):
    def f(M, st, a):
        p = a[0]
        size = st.objsize(p.obj)
        if size is None or size - p.off != 8 * n:
            M.oob.append((st.pathcond(), f"{label}: rate array has {None if size is None else (size - p.off) // 8} cells, declared {n}"))
        for i in range(n):
            cur = st.load(p.obj, p.off + 8 * i)
            if not (cur is not None and not is_sym(cur) and not isinstance(cur, Dual) and cur == 0):
                log.append(f"{label}[{i}] not zero-initialised at call")
            st.store(p.obj, p.off + 8 * i, arr_syms[i])
        return st, 0

    return f


def opaque_real(name):
    def f(M, st, a):
        return st, z3.Real(name)

    return f
